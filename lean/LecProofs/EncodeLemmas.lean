/-
  LecProofs.EncodeLemmas — what `encode` returns, for any backend whose encode operation
  keeps the data payloads and returns m parity payloads of the block size.
-/
import LecModel.Frontend
import LecModel.Backends
import LecProofs.HeaderLemmas
namespace Lec

/-- contract of a backend's encode operation that the front end relies on. -/
structure EncodeOK (be : Backend) (k m : Nat) (bsOK : Nat → Prop := fun _ => True) : Prop where
  data_kept : ∀ d p bs d' p', be.encode d p bs = .ok (d', p') → d' = d
  parity_len : ∀ d p bs d' p', bsOK bs → d.length = k → p.length = m → (∀ x ∈ d, x.length = bs) →
      (∀ x ∈ p, x.length = bs) → be.encode d p bs = .ok (d', p') → p'.length = m ∧ ∀ x ∈ p', x.length = bs

/-! ### the split loop -/

theorem splitLoop_length (k bs : Nat) (d : Bytes) : (splitLoop k bs d).length = k := by
  induction k generalizing d with
  | zero => rfl
  | succ k ih => simp [splitLoop, ih]

theorem splitLoop_elem_length (k bs : Nat) (d : Bytes) : ∀ x ∈ splitLoop k bs d, x.length = bs := by
  induction k generalizing d with
  | zero => intro x hx; simp [splitLoop] at hx
  | succ k ih =>
    intro x hx
    simp only [splitLoop, List.mem_cons] at hx
    rcases hx with rfl | hx
    · simp only [List.length_append, List.length_take, zeros_length]; omega
    · exact ih _ x hx

/-- payload `i` of the systematic split: bytes `[i*bs, (i+1)*bs)` of the input, zero padded. -/
def slice (d : Bytes) (bs i : Nat) : Bytes :=
  let piece := (d.drop (i * bs)).take bs
  piece ++ zeros (bs - piece.length)

theorem splitLoop_eq (k bs : Nat) (d : Bytes) :
    splitLoop k bs d = (List.range k).map (slice d bs) := by
  induction k generalizing d with
  | zero => rfl
  | succ k ih =>
    rw [splitLoop, ih, List.range_succ_eq_map, List.map_cons, List.map_map]
    congr 1
    · simp [slice]
    · apply List.map_congr_left
      intro i _
      simp only [slice, Function.comp, List.drop_drop]
      have : (i + 1) * bs = bs + i * bs := by rw [Nat.add_mul]; omega
      rw [this]

theorem slice_length (d : Bytes) (bs i : Nat) : (slice d bs i).length = bs := by
  simp only [slice, List.length_append, List.length_take, zeros_length]; omega

/-! ### encode -/

/-- the fragment the specification describes for payload `p` at index `idx`. -/
def specFragment (env : Env) (i : Inst) (len bs : Nat) (p : Bytes) (idx : Nat) : Bytes :=
  (specHeader env i idx len bs p).bytes ++ p

/-- payload size of every fragment of an encode of `len` bytes. -/
def blockSize (i : Inst) (len : Nat) : Nat := alignedSize i len / i.k

theorem encode_spec (env : Env) (be : Backend) (i : Inst) (data : Bytes) (frags : List Bytes)
    {bsOK : Nat → Prop} (hbe : EncodeOK be i.k i.m bsOK) (hbs : bsOK (blockSize i data.length))
    (hlen : data.length < 2 ^ 31)
    (h : encode env be i data = .ok frags) :
    ∃ par : List Bytes, par.length = i.m ∧ (∀ x ∈ par, x.length = blockSize i data.length) ∧
      frags = ((splitLoop i.k (blockSize i data.length) data ++ par).zipIdx.map fun (p, idx) =>
        specFragment env i data.length (blockSize i data.length) p idx) := by
  generalize hbs' : blockSize i data.length = bs
  unfold encode at h
  have hbs2 := hbs'
  unfold blockSize at hbs2
  simp only [hbs2] at h
  simp only [bind, Except.bind] at h
  split at h
  · cases h
  · rename_i v hv
    obtain ⟨d', p'⟩ := v
    simp only [pure, Except.pure, Except.ok.injEq] at h
    have hd : d' = splitLoop i.k bs data := hbe.data_kept _ _ _ _ _ hv
    have hp := hbe.parity_len _ _ _ _ _ (by rw [← hbs']; exact hbs) (splitLoop_length _ _ _) (List.length_replicate ..)
      (splitLoop_elem_length i.k bs data)
      (by intro x hx; rw [List.mem_replicate] at hx; rw [hx.2]; exact zeros_length _) hv
    refine ⟨p', hp.1, hp.2, ?_⟩
    rw [← h, hd]
    apply List.map_congr_left
    intro ⟨p, idx⟩ hmem
    have hpm : p ∈ splitLoop i.k bs data ++ p' := by
      have := List.mem_zipIdx hmem
      simp at this
      rw [this.2]; exact List.getElem_mem _
    have hpl : p.length = bs := by
      rcases List.mem_append.mp hpm with h1 | h1
      · exact splitLoop_elem_length _ _ _ _ h1
      · exact hp.2 _ h1
    exact addFragmentMetadata_spec env i idx data.length bs p hpl hlen

/-- the null backend satisfies the encode contract. -/
theorem nullBackend_encodeOK (k m : Nat) : EncodeOK nullBackend k m where
  data_kept := by intro d p bs d' p' h; simp [nullBackend] at h; exact h.1.symm
  parity_len := by
    intro d p bs d' p' _ _ hm _ hp h
    simp [nullBackend] at h
    rw [← h.2]; exact ⟨hm, hp⟩

end Lec
