/-
  LecProofs.RSBackend — the Reed–Solomon backend record `rsBackend (genEntry k) k m`
  satisfies the front-end contracts (`EncodeOK`, `DecodeOK`, `DecodeSound`) for even block
  sizes, and `rsNeeded` returns k usable indexes exactly when at most m are excluded.

  * `rs_encodeOK_all` : `EncodeOK (rsBackend G k m) k m` for every generator and block size
  * `rs_encodeOK`, `rs_isStripe`, `IsStripe.toStripe`
  * `rsReconstruct_data`, `rsReconstruct_parity` : reconstruct of a single destination
  * `rs_decodeOK`, `rs_decodeSound`
  * `rsNeeded_ok`, `rsNeeded_error`, `rsNeeded_invertible`
-/
import LecModel.Backends
import LecProofs.Contracts
import LecProofs.EncodeLemmas
import LecProofs.RSCorrect
open Finset

namespace Lec

/-! ### `liftOpt` and the backend record -/

theorem liftOpt_eq_ok {α : Type} {x : Option α} {v : α} : liftOpt x = .ok v ↔ x = some v := by
  cases x <;> simp [liftOpt]

theorem liftOpt_ne_crash {α : Type} {x : Option α} {v : α} (h : x = some v) :
    liftOpt x ≠ .error .crash := by
  subst h; simp [liftOpt]

theorem rs_encode_ok_iff (G : Nat → Nat → Nat) (k m : Nat) (d p : List Bytes) (bs : Nat)
    (d' p' : List Bytes) :
    (rsBackend G k m).encode d p bs = .ok (d', p') ↔ d' = d ∧ rsEncode G k m d p bs = some p' := by
  show (liftOpt (rsEncode G k m d p bs)).map (fun p' => (d, p')) = .ok (d', p') ↔ _
  cases rsEncode G k m d p bs with
  | none => simp [liftOpt, Except.map]
  | some v =>
    simp only [liftOpt, Except.map, Except.ok.injEq, Prod.mk.injEq, Option.some.injEq]
    constructor
    · rintro ⟨h1, h2⟩; exact ⟨h1.symm, h2⟩
    · rintro ⟨h1, h2⟩; exact ⟨h1.symm, h2⟩

/-! ### lengths, for every block size -/

theorem regionMulXor_length {src dst out : Bytes} {mult n : Nat} (hs : src.length = n)
    (hd : dst.length = n) (h : regionMulXor src dst mult = some out) : out.length = n := by
  unfold regionMulXor at h
  have hev : (n - n % 2) % 2 = 0 := by omega
  have hws : (List.zipWith (fun s d => d ^^^ gmul s mult)
      (wordsOf (src.take (src.length - src.length % 2)))
      (wordsOf (dst.take (src.length - src.length % 2)))).length = (n - n % 2) / 2 := by
    rw [List.length_zipWith, wordsOf_length, wordsOf_length, List.length_take, List.length_take,
      hs, hd]
    have : min (n - n % 2) n = n - n % 2 := by omega
    rw [this]; simp
  simp only at h
  split at h
  · rename_i h0
    rw [Option.some.injEq] at h
    rw [← h, bytesOfWords_length, hws]
    rw [hs] at h0; omega
  · rename_i h0
    split at h
    · rw [Option.some.injEq] at h
      rw [← h, List.length_append, bytesOfWords_length, hws]
      rw [hs] at h0
      simp only [List.length_cons, List.length_nil]; omega
    · cases h

theorem dotStep_length {acc out : Bytes} {p : Bytes × Nat} {n : Nat} (hs : p.1.length = n)
    (hd : acc.length = n) (h : dotStep acc p = some out) : out.length = n := by
  unfold dotStep at h
  split at h
  · rw [Option.some.injEq] at h
    rw [← h, xorBytes_length, hs, hd]; simp
  · exact regionMulXor_length hs hd h

theorem regionDot_length {n : Nat} : ∀ (srcs : List Bytes) (row : List Nat) (dst out : Bytes),
    (∀ s ∈ srcs, s.length = n) → dst.length = n → regionDot srcs row dst = some out →
    out.length = n := by
  intro srcs
  induction srcs with
  | nil =>
    intro row dst out _ hd h
    simp [regionDot_eq] at h
    rw [← h]; exact hd
  | cons s srcs ih =>
    intro row dst out hs hd h
    cases row with
    | nil =>
      simp [regionDot_eq] at h
      rw [← h]; exact hd
    | cons x row =>
      rw [regionDot_eq, List.zip_cons_cons, List.foldlM_cons] at h
      cases h1 : dotStep dst (s, x) with
      | none => rw [h1] at h; simp at h
      | some o1 =>
        rw [h1] at h
        have hl1 := dotStep_length (p := (s, x)) (hs s (by simp)) hd h1
        exact ih row o1 out (fun s' hs' => hs s' (by simp [hs'])) hl1 h

theorem mapM_some_elim {α β : Type} (f : α → Option β) :
    ∀ (l : List α) (r : List β), l.mapM f = some r →
      r.length = l.length ∧ ∀ x ∈ r, ∃ a ∈ l, f a = some x := by
  intro l
  induction l with
  | nil =>
    intro r h
    simp at h
    subst h; simp
  | cons a l ih =>
    intro r h
    rw [List.mapM_cons] at h
    cases h1 : f a with
    | none => rw [h1] at h; simp at h
    | some b =>
      cases h2 : l.mapM f with
      | none => rw [h1, h2] at h; simp at h
      | some bs' =>
        rw [h1, h2] at h
        simp at h
        subst h
        obtain ⟨hl, hx⟩ := ih bs' h2
        refine ⟨by simp [hl], ?_⟩
        intro x hx'
        rcases List.mem_cons.mp hx' with rfl | hx'
        · exact ⟨a, by simp, h1⟩
        · obtain ⟨a', ha', hfa⟩ := hx x hx'
          exact ⟨a', by simp [ha'], hfa⟩

/-- parity buffers returned by `rsEncode` have the block size (any generator, any `bs`). -/
theorem rsEncode_lengths {G : Nat → Nat → Nat} {k m bs : Nat} {d p p' : List Bytes}
    (hp : p.length = m) (hd : ∀ x ∈ d, x.length = bs) (hpb : ∀ x ∈ p, x.length = bs)
    (h : rsEncode G k m d p bs = some p') : p'.length = m ∧ ∀ x ∈ p', x.length = bs := by
  unfold rsEncode at h
  rw [any_short_false hd, map_take_eq hd] at h
  simp only [Bool.false_eq_true, if_false] at h
  obtain ⟨hl, hx⟩ := mapM_some_elim _ _ _ h
  refine ⟨by simpa using hl, ?_⟩
  intro x hxm
  obtain ⟨i, hi, hfi⟩ := hx x hxm
  have him : i < p.length := by rw [hp]; simpa using hi
  have hbl : (p.getD i []).length = bs := by
    rw [getD_eq_getElem' him]; exact hpb _ (List.getElem_mem him)
  rw [onPrefix_exact hbl] at hfi
  exact regionDot_length d _ _ x hd (by simp [zeros]) hfi

/-- the encode contract for every generator and every block size. -/
theorem rs_encodeOK_all (G : Nat → Nat → Nat) (k m : Nat) : EncodeOK (rsBackend G k m) k m where
  data_kept := by
    intro d p bs d' p' h
    exact ((rs_encode_ok_iff G k m d p bs d' p').mp h).1
  parity_len := by
    intro d p bs d' p' _ _ hp hd hpb h
    exact rsEncode_lengths hp hd hpb ((rs_encode_ok_iff G k m d p bs d' p').mp h).2

/-- (1) the encode contract on even block sizes. -/
theorem rs_encodeOK (k m : Nat) :
    EncodeOK (rsBackend (genEntry k) k m) k m (fun bs => bs % 2 = 0) where
  data_kept := (rs_encodeOK_all (genEntry k) k m).data_kept
  parity_len := by
    intro d p bs d' p' _ hdl hp hd hpb h
    exact (rs_encodeOK_all (genEntry k) k m).parity_len d p bs d' p' trivial hdl hp hd hpb h

/-! ### stripes -/

theorem replicate_zeros_getD {m bs i : Nat} (hi : i < m) :
    ((List.replicate m (zeros bs)).getD i []).length = bs := by
  rw [getD_eq_getElem' (by simpa using hi)]
  simp [zeros]

/-- (2) a front-end stripe of the RS backend is a consistent stripe of `RSCorrect`. -/
theorem IsStripe.toStripe {k m bs : Nat} {dataP parP : List Bytes} (hkm : k + m ≤ 65536)
    (hbs : bs % 2 = 0) (h : IsStripe (rsBackend (genEntry k) k m) k m bs dataP parP) :
    Stripe k m bs dataP parP :=
  Stripe.of_encode hkm hbs h.dlen h.dsz (fun _ hi => replicate_zeros_getD hi)
    ((rs_encode_ok_iff _ k m _ _ bs _ _).mp h.enc).2

/-- (2) every list of `k` data payloads of an even size `bs` extends to a stripe. -/
theorem rs_isStripe {k m bs : Nat} (hkm : k + m ≤ 65536) (hbs : bs % 2 = 0) (dataP : List Bytes)
    (hdl : dataP.length = k) (hdb : ∀ x ∈ dataP, x.length = bs) :
    ∃ parP, IsStripe (rsBackend (genEntry k) k m) k m bs dataP parP ∧
      rsEncode (genEntry k) k m dataP (List.replicate m (zeros bs)) bs = some parP ∧
      ∀ i < m, ∀ w < bs / 2, wordAt (wordsOf (parP.getD i [])) w =
        ∑ j ∈ range k, GF16.ofNat (genEntry k (k + i) j) * wordAt (wordsOf (dataP.getD j [])) w := by
  obtain ⟨P, hP, hPl, hPs⟩ := rsEncode_spec hkm hbs dataP (List.replicate m (zeros bs)) hdl hdb
    (fun _ hi => replicate_zeros_getD hi)
  refine ⟨P, ⟨hdl, hdb, (rs_encode_ok_iff _ k m _ _ bs _ _).mpr ⟨rfl, hP⟩, hPl, ?_⟩, hP,
    fun i hi => (hPs i hi).2.2⟩
  intro x hx
  obtain ⟨i, hi, rfl⟩ := List.mem_iff_getElem.mp hx
  rw [← getD_eq_getElem' (d := []) hi]
  exact (hPs i (by rwa [hPl] at hi)).2.1

/-! ### `eraseBufs` -/

theorem eraseBufs_data {k : Nat} (dataP : List Bytes) (missing : List Nat) (bs : Nat)
    (hdl : dataP.length = k) : eraseBufs dataP missing 0 bs = eraseData dataP missing k bs := by
  unfold eraseBufs eraseData
  apply List.ext_getElem
  · simp [hdl]
  · intro i h1 h2
    have hi : i < dataP.length := by simpa using h1
    simp [List.getElem?_eq_getElem hi]

theorem eraseBufs_parity {m : Nat} (parP : List Bytes) (missing : List Nat) (k bs : Nat)
    (hpl : parP.length = m) :
    eraseBufs parP missing k bs = eraseParity parP missing k m bs := by
  unfold eraseBufs eraseParity
  apply List.ext_getElem
  · simp [hpl]
  · intro i h1 h2
    have hi : i < parP.length := by simpa using h1
    simp [List.getElem?_eq_getElem hi, Nat.add_comm]

/-! ### reconstruct -/

/-- one substitution step of the parity-row construction of `rsReconstruct`. -/
def reconStep {k : Nat} (g : Nat → Nat) (N : Mat k) (row : List Nat) (md : Nat) : List Nat :=
  List.zipWith (fun r (j : Nat) => r ^^^ gmul (g md) ((matRow N md).getD j 0)) row (List.range k)

/-- the coefficient row `rsReconstruct` builds for a parity destination. -/
def reconRow {k : Nat} (g : Nat → Nat) (N : Mat k) (missing : List Nat) : List Nat :=
  (missing.filter (· < k)).foldl (reconStep g N)
    ((((List.range k).filter (fun i => !missing.contains i)).map g) ++
      List.replicate (k - (((List.range k).filter (fun i => !missing.contains i)).map g).length) 0)

theorem rsReconstruct_unfold (G : Nat → Nat → Nat) (k m : Nat) (data parity : List Bytes)
    (missing : List Nat) (dest bs : Nat) :
    rsReconstruct G k m data parity missing dest bs =
      if missing.length > m then some (data, parity) else
      match rsPlan G k m missing with
      | none => none
      | some pl =>
        if pl.avail.any (fun i => (bufAt data parity k i).length < bs) then none else
        if dest < k then
          (onPrefix (data.getD dest []) bs
            (regionDot (pl.avail.map fun i => (bufAt data parity k i).take bs)
              (matRow pl.inv dest))).map fun b => (data.set dest b, parity)
        else
          (onPrefix (parity.getD (dest - k) []) bs
            (regionDot (pl.avail.map fun i => (bufAt data parity k i).take bs)
              (reconRow (G dest) pl.inv missing))).map fun b =>
                (data, parity.set (dest - k) b) := rfl

/-- word form of data recovery: `Σ_a N[i][a] · c_{avail a} = d_i`. -/
theorem Stripe.recover_word {k m bs : Nat} {data parity : List Bytes}
    (st : Stripe k m bs data parity) (missing : List Nat) (hlen : missing.length ≤ m) {N : Mat k}
    (hN : toMatrix N * genMatrix k (fun a => (availOf k m missing).getD a 0) = 1)
    {i : Nat} (hik : i < k) {w : Nat} (hwlt : w < bs / 2) :
    ∑ a ∈ range k,
        wordAt (wordsOf (((availOf k m missing).map (bufAt data parity k)).getD a [])) w *
          GF16.ofNat ((matRow N i).getD a 0) =
      wordAt (wordsOf (data.getD i [])) w := by
  have hal := availOf_length (k := k) hlen
  rw [Finset.sum_range]
  have hterm : ∀ a : Fin k,
      wordAt (wordsOf (((availOf k m missing).map (bufAt data parity k)).getD a [])) w *
        GF16.ofNat ((matRow N i).getD a 0) =
      (∑ j : Fin k, genMatrix k (fun a => (availOf k m missing).getD a 0) a j *
        wordAt (wordsOf (data.getD j [])) w) * toMatrix N ⟨i, hik⟩ a := by
    intro a
    have ha : a.val < (availOf k m missing).length := by rw [hal]; exact a.isLt
    rw [rs_getD_map' _ _ 0 _ ha, matRow_getD N hik a.isLt]
    have hr : (availOf k m missing).getD a 0 < k + m := by
      rw [getD_eq_getElem' ha]
      exact (availOf_mem (List.getElem_mem ha)).1
    rw [st.symbol_eq hr hwlt, Finset.sum_range]
    rfl
  rw [Finset.sum_congr rfl (fun a _ => hterm a)]
  exact decode_algebra _ _ hN (fun j => wordAt (wordsOf (data.getD j [])) w) ⟨i, hik⟩

theorem Stripe.srcs_length {k m bs : Nat} {data parity : List Bytes}
    (st : Stripe k m bs data parity) (missing : List Nat) :
    ∀ s ∈ (availOf k m missing).map (bufAt data parity k), s.length = bs := by
  intro s hs
  obtain ⟨r, hr, rfl⟩ := List.mem_map.mp hs
  exact st.bufAt_length (availOf_mem hr).1

/-- the dot product of the available payloads with row `i` of the inverse is data payload `i`. -/
theorem Stripe.recover {k m bs : Nat} {data parity : List Bytes}
    (st : Stripe k m bs data parity) (missing : List Nat) (hlen : missing.length ≤ m) {N : Mat k}
    (hNb : N.Bounded)
    (hN : toMatrix N * genMatrix k (fun a => (availOf k m missing).getD a 0) = 1)
    {i : Nat} (hik : i < k) :
    regionDot ((availOf k m missing).map (bufAt data parity k)) (matRow N i) (zeros bs) =
      some (data.getD i []) := by
  have hal := availOf_length (k := k) hlen
  obtain ⟨out, ho, hl, hw⟩ := regionDot_field st.hbs
    ((availOf k m missing).map (bufAt data parity k)) (matRow N i) (zeros bs)
    (st.srcs_length missing) (by simp [zeros]) (matRow_lt hNb hik)
    (by rw [matRow_length N hik, List.length_map, hal])
  rw [ho]
  congr 1
  apply eq_of_wordAt st.hbs hl (st.data_length hik)
  intro w hwlt
  rw [hw w hwlt, wordAt_zeros, zero_add, List.length_map, hal]
  exact st.recover_word missing hlen hN hik hwlt

/-! #### the parity row -/

theorem reconStep_spec {k : Nat} {N : Mat k} (hNb : N.Bounded) {g : Nat → Nat} {md : Nat}
    (hmd : md < k) (hg : g md < 2^16) {row : List Nat} (hrl : row.length = k)
    (hrb : ∀ x ∈ row, x < 2^16) :
    (reconStep g N row md).length = k ∧ (∀ x ∈ reconStep g N row md, x < 2^16) ∧
    ∀ a < k, GF16.ofNat ((reconStep g N row md).getD a 0) =
      GF16.ofNat (row.getD a 0) + GF16.ofNat (g md) * GF16.ofNat ((matRow N md).getD a 0) := by
  have hlen : (reconStep g N row md).length = k := by simp [reconStep, hrl]
  have hget : ∀ a (ha : a < k), (reconStep g N row md).getD a 0 =
      row.getD a 0 ^^^ gmul (g md) ((matRow N md).getD a 0) := by
    intro a ha
    rw [getD_eq_getElem' (by rw [hlen]; exact ha), getD_eq_getElem' (by rw [hrl]; exact ha)]
    simp [reconStep]
  have hmr : ∀ a, a < k → (matRow N md).getD a 0 < 2^16 := by
    intro a ha
    rw [matRow_getD N hmd ha]; exact hNb _ _
  have hrow : ∀ a, a < k → row.getD a 0 < 2^16 := by
    intro a ha
    rw [getD_eq_getElem' (by rw [hrl]; exact ha)]
    exact hrb _ (List.getElem_mem _)
  refine ⟨hlen, ?_, ?_⟩
  · intro x hx
    obtain ⟨a, ha, rfl⟩ := List.mem_iff_getElem.mp hx
    have ha' : a < k := by rwa [hlen] at ha
    rw [← getD_eq_getElem' (d := 0) ha, hget a ha']
    exact xor_lt16 (hrow a ha') (gmul_lt hg (hmr a ha'))
  · intro a ha
    rw [hget a ha, GF16.ofNat_xor (hrow a ha) (gmul_lt hg (hmr a ha)),
      GF16.ofNat_gmul hg (hmr a ha)]

theorem reconFold_spec {k : Nat} {N : Mat k} (hNb : N.Bounded) {g : Nat → Nat}
    (hg : ∀ j, j < k → g j < 2^16) :
    ∀ (mds : List Nat) (row0 : List Nat), (∀ md ∈ mds, md < k) → row0.length = k →
      (∀ x ∈ row0, x < 2^16) →
      (mds.foldl (reconStep g N) row0).length = k ∧
      (∀ x ∈ mds.foldl (reconStep g N) row0, x < 2^16) ∧
      ∀ a < k, GF16.ofNat ((mds.foldl (reconStep g N) row0).getD a 0) =
        GF16.ofNat (row0.getD a 0) +
          (mds.map fun md => GF16.ofNat (g md) * GF16.ofNat ((matRow N md).getD a 0)).sum := by
  intro mds
  induction mds with
  | nil => intro row0 _ hl hb; exact ⟨hl, hb, by intro a _; simp⟩
  | cons md mds ih =>
    intro row0 hmds hl hb
    have hmd : md < k := hmds md (by simp)
    obtain ⟨s1, s2, s3⟩ := reconStep_spec hNb hmd (hg md hmd) hl hb
    obtain ⟨r1, r2, r3⟩ := ih (reconStep g N row0 md) (fun x hx => hmds x (by simp [hx])) s1 s2
    rw [List.foldl_cons]
    refine ⟨r1, r2, ?_⟩
    intro a ha
    rw [r3 a ha, s3 a ha, List.map_cons, List.sum_cons, add_assoc]

theorem sum_range_getD {M : Type} [AddCommMonoid M] (H : ℕ → M) :
    ∀ l : List ℕ, ∑ a ∈ range l.length, H (l.getD a 0) = (l.map H).sum
  | [] => by simp
  | x :: l => by
    rw [List.length_cons, Finset.sum_range_succ', List.map_cons, List.sum_cons, add_comm]
    simp only [List.getD_cons_zero, List.getD_cons_succ]
    rw [sum_range_getD H l]

/-- the non-missing data indexes are the first entries of `availOf`. -/
theorem availOf_prefix (k m : Nat) (missing : List Nat) {a : Nat}
    (ha : a < ((List.range k).filter (fun i => !missing.contains i)).length) :
    (availOf k m missing).getD a 0 =
      ((List.range k).filter (fun i => !missing.contains i)).getD a 0 := by
  have hle : ((List.range k).filter (fun i => !missing.contains i)).length ≤ k := by
    have := List.length_filter_le (fun i => !missing.contains i) (List.range k)
    rw [List.length_range] at this
    exact this
  unfold availOf
  rw [List.range_add, List.filter_append, List.take_append, List.take_of_length_le hle]
  rw [List.getD_eq_getElem?_getD, List.getD_eq_getElem?_getD, List.getElem?_append_left ha]

/-- (3b, parity) the coefficient row built by `rsReconstruct` reproduces parity payload
    `dest - k` from the available payloads. -/
theorem Stripe.recover_parity {k m bs : Nat} {data parity : List Bytes}
    (st : Stripe k m bs data parity) (missing : List Nat) (hnd : missing.Nodup)
    (hlen : missing.length ≤ m) {N : Mat k} (hNb : N.Bounded)
    (hN : toMatrix N * genMatrix k (fun a => (availOf k m missing).getD a 0) = 1)
    {dest : Nat} (hdk : k ≤ dest) (hdn : dest < k + m) :
    regionDot ((availOf k m missing).map (bufAt data parity k))
      (reconRow (genEntry k dest) N missing) (zeros bs) = some (parity.getD (dest - k) []) := by
  have hal := availOf_length (k := k) hlen
  have hg : ∀ j, j < k → genEntry k dest j < 2^16 := fun j _ => genEntry_lt st.hkm hdn
  -- the initial row
  set availData := (List.range k).filter (fun i => !missing.contains i) with hAD
  have hADle : availData.length ≤ k := by
    have := List.length_filter_le (fun i => !missing.contains i) (List.range k)
    rw [List.length_range] at this
    exact this
  have hADnd : availData.Nodup := List.nodup_range.filter _
  have hADlt : ∀ j ∈ availData, j < k := by
    intro j hj
    have := (List.mem_filter.mp hj).1
    simpa using this
  set row0 := (availData.map (genEntry k dest)) ++
    List.replicate (k - (availData.map (genEntry k dest)).length) 0 with hrow0
  have hr0l : row0.length = k := by
    rw [hrow0, List.length_append, List.length_replicate, List.length_map]; omega
  have hr0get : ∀ a, row0.getD a 0 =
      if a < availData.length then genEntry k dest (availData.getD a 0) else 0 := by
    intro a
    rw [hrow0, List.getD_eq_getElem?_getD]
    by_cases ha : a < availData.length
    · rw [if_pos ha, List.getElem?_append_left (by simpa using ha), List.getElem?_map,
        List.getD_eq_getElem?_getD, List.getElem?_eq_getElem ha]
      rfl
    · rw [if_neg ha, List.getElem?_append_right (by simpa using Nat.le_of_not_lt ha),
        List.getElem?_replicate]
      split <;> rfl
  have hr0b : ∀ x ∈ row0, x < 2^16 := by
    intro x hx
    obtain ⟨a, ha, rfl⟩ := List.mem_iff_getElem.mp hx
    rw [← getD_eq_getElem' (d := 0) ha, hr0get]
    split
    · exact genEntry_lt st.hkm hdn
    · norm_num
  -- the substitution steps
  set mds := missing.filter (· < k) with hmds
  have hmdlt : ∀ md ∈ mds, md < k := by
    intro md h
    have := (List.mem_filter.mp h).2
    simpa using this
  have hmdnd : mds.Nodup := hnd.filter _
  obtain ⟨f1, f2, f3⟩ := reconFold_spec hNb hg mds row0 hmdlt hr0l hr0b
  have hrowdef : reconRow (genEntry k dest) N missing = mds.foldl (reconStep (genEntry k dest) N) row0 :=
    rfl
  obtain ⟨out, ho, hl, hw⟩ := regionDot_field st.hbs
    ((availOf k m missing).map (bufAt data parity k)) (reconRow (genEntry k dest) N missing)
    (zeros bs) (st.srcs_length missing) (by simp [zeros]) (by rw [hrowdef]; exact f2)
    (by rw [hrowdef, f1, List.length_map, hal])
  rw [ho]
  congr 1
  apply eq_of_wordAt st.hbs hl (st.parity_length (by omega))
  intro w hwlt
  rw [hw w hwlt, wordAt_zeros, zero_add, List.length_map, hal, hrowdef]
  -- abbreviations
  set S : ℕ → GF16 := fun a =>
    wordAt (wordsOf (((availOf k m missing).map (bufAt data parity k)).getD a [])) w with hS
  set H : ℕ → GF16 := fun j =>
    GF16.ofNat (genEntry k dest j) * wordAt (wordsOf (data.getD j [])) w with hH
  have hstep1 : ∀ a ∈ range k,
      S a * GF16.ofNat ((mds.foldl (reconStep (genEntry k dest) N) row0).getD a 0) =
      S a * GF16.ofNat (row0.getD a 0) +
        ∑ md ∈ mds.toFinset, GF16.ofNat (genEntry k dest md) *
          (S a * GF16.ofNat ((matRow N md).getD a 0)) := by
    intro a ha
    rw [f3 a (by simpa using ha), mul_add, ← List.sum_toFinset _ hmdnd, Finset.mul_sum]
    congr 1
    apply Finset.sum_congr rfl
    intro md _; ring
  rw [Finset.sum_congr rfl hstep1, Finset.sum_add_distrib, Finset.sum_comm]
  -- the substituted part: missing data symbols
  have hpart2 : ∑ md ∈ mds.toFinset, ∑ a ∈ range k, GF16.ofNat (genEntry k dest md) *
      (S a * GF16.ofNat ((matRow N md).getD a 0)) = ∑ md ∈ mds.toFinset, H md := by
    apply Finset.sum_congr rfl
    intro md hmd
    have hmdk : md < k := hmdlt md (List.mem_toFinset.mp hmd)
    rw [← Finset.mul_sum, st.recover_word missing hlen hN hmdk hwlt]
  -- the direct part: available data symbols
  have hpart1 : ∑ a ∈ range k, S a * GF16.ofNat (row0.getD a 0) = ∑ j ∈ availData.toFinset, H j := by
    have hterm : ∀ a ∈ range k, S a * GF16.ofNat (row0.getD a 0) =
        if a < availData.length then H (availData.getD a 0) else 0 := by
      intro a ha
      rw [hr0get a]
      by_cases hlt : a < availData.length
      · rw [if_pos hlt, if_pos hlt]
        have hak : a < (availOf k m missing).length := by rw [hal]; omega
        have hj : availData.getD a 0 < k := by
          rw [getD_eq_getElem' hlt]; exact hADlt _ (List.getElem_mem hlt)
        simp only [hS, hH]
        rw [rs_getD_map' _ _ 0 _ hak, availOf_prefix k m missing hlt]
        unfold bufAt
        rw [if_pos hj, mul_comm]
      · rw [if_neg hlt, if_neg hlt]
        show S a * (0 : GF16) = 0
        rw [mul_zero]
    rw [Finset.sum_congr rfl hterm, List.sum_toFinset _ hADnd, ← sum_range_getD H availData]
    rw [← Finset.sum_subset (Finset.range_subset_range.mpr hADle)
      (by intro a _ ha
          have : ¬ a < availData.length := by simpa using ha
          rw [if_neg this])]
    apply Finset.sum_congr rfl
    intro a ha
    rw [if_pos (by simpa using ha)]
  rw [hpart1, hpart2]
  -- recombine
  have hset1 : availData.toFinset = (range k).filter (fun j => j ∉ missing) := by
    ext j
    simp [hAD]
  have hset2 : mds.toFinset = (range k).filter (fun j => ¬ j ∉ missing) := by
    ext j
    simp [hmds, and_comm]
  rw [hset1, hset2, Finset.sum_filter_add_sum_filter_not]
  have hsym := st.symbol_eq hdn hwlt
  unfold bufAt at hsym
  rw [if_neg (by omega)] at hsym
  rw [hsym]

/-- erased inputs: the sources the decoder reads are the true payloads. -/
theorem Stripe.srcs_erase {k m bs : Nat} {data parity : List Bytes}
    (st : Stripe k m bs data parity) (missing : List Nat) :
    (availOf k m missing).map (fun i =>
      (bufAt (eraseData data missing k bs) (eraseParity parity missing k m bs) k i).take bs) =
      (availOf k m missing).map (bufAt data parity k) := by
  apply List.map_congr_left
  intro r hr
  obtain ⟨h1, h2⟩ := availOf_mem hr
  rw [bufAt_erase _ _ _ _ h1 h2, ← st.bufAt_length h1, List.take_length]

theorem Stripe.any_erase {k m bs : Nat} {data parity : List Bytes}
    (st : Stripe k m bs data parity) (missing : List Nat) :
    (availOf k m missing).any (fun i =>
      (bufAt (eraseData data missing k bs) (eraseParity parity missing k m bs) k i).length < bs)
      = false := by
  rw [List.any_eq_false]
  intro r hr
  obtain ⟨h1, h2⟩ := availOf_mem hr
  rw [bufAt_erase _ _ _ _ h1 h2, st.bufAt_length h1]
  simp

theorem getD_append_left' {α : Type} {l₁ l₂ : List α} {d : α} {i : Nat} (h : i < l₁.length) :
    (l₁ ++ l₂).getD i d = l₁.getD i d := by
  rw [List.getD_eq_getElem?_getD, List.getD_eq_getElem?_getD, List.getElem?_append_left h]

theorem getD_append_right' {α : Type} {l₁ l₂ : List α} {d : α} {i : Nat} (h : l₁.length ≤ i) :
    (l₁ ++ l₂).getD i d = l₂.getD (i - l₁.length) d := by
  rw [List.getD_eq_getElem?_getD, List.getD_eq_getElem?_getD, List.getElem?_append_right h]

theorem getD_set_self' {α : Type} {l : List α} {d x : α} {i : Nat} (h : i < l.length) :
    (l.set i x).getD i d = x := by
  rw [getD_eq_getElem' (by rw [List.length_set]; exact h), List.getElem_set_self]

theorem contains_true_of_mem {missing : List Nat} {i : Nat} (h : i ∈ missing) :
    missing.contains i = true := by simpa using h

/-- (3b, data) `rsReconstruct` of a missing data index rebuilds exactly that payload. -/
theorem Stripe.rsReconstruct_data {k m bs : Nat} {data parity : List Bytes}
    (st : Stripe k m bs data parity) (missing : List Nat) (hlen : missing.length ≤ m)
    {dest : Nat} (hd : dest ∈ missing) (hdk : dest < k) :
    rsReconstruct (genEntry k) k m (eraseData data missing k bs)
      (eraseParity parity missing k m bs) missing dest bs =
      some ((eraseData data missing k bs).set dest (data.getD dest []),
        eraseParity parity missing k m bs) := by
  obtain ⟨N, hplan, hNb, hN⟩ := rsPlan_spec st.hkm missing hlen
  rw [rsReconstruct_unfold, if_neg (by omega), hplan]
  simp only [st.any_erase missing, st.srcs_erase missing, Bool.false_eq_true, if_false]
  rw [if_pos hdk, eraseData_getD _ _ _ hdk, if_pos (contains_true_of_mem hd),
    onPrefix_exact (by simp [zeros]), st.recover missing hlen hNb hN hdk]
  rfl

/-- (3b, parity) `rsReconstruct` of a missing parity index rebuilds exactly that payload. -/
theorem Stripe.rsReconstruct_parity {k m bs : Nat} {data parity : List Bytes}
    (st : Stripe k m bs data parity) (missing : List Nat) (hnd : missing.Nodup)
    (hlen : missing.length ≤ m) {dest : Nat} (hd : dest ∈ missing) (hdk : k ≤ dest)
    (hdn : dest < k + m) :
    rsReconstruct (genEntry k) k m (eraseData data missing k bs)
      (eraseParity parity missing k m bs) missing dest bs =
      some (eraseData data missing k bs,
        (eraseParity parity missing k m bs).set (dest - k) (parity.getD (dest - k) [])) := by
  obtain ⟨N, hplan, hNb, hN⟩ := rsPlan_spec st.hkm missing hlen
  rw [rsReconstruct_unfold, if_neg (by omega), hplan]
  simp only [st.any_erase missing, st.srcs_erase missing, Bool.false_eq_true, if_false]
  have h2 : k + (dest - k) = dest := by omega
  rw [if_neg (by omega), eraseParity_getD _ _ _ _ (by omega : dest - k < m), h2,
    if_pos (contains_true_of_mem hd), onPrefix_exact (by simp [zeros]),
    st.recover_parity missing hnd hlen hNb hN hdk hdn]
  rfl

/-! ### the contracts -/

theorem MissingOK.nodup {k m : Nat} {missing : List Nat} (h : MissingOK k m missing) :
    missing.Nodup :=
  h.1.imp (fun hab => Nat.ne_of_lt hab)

theorem eraseData_length (data : List Bytes) (missing : List Nat) (k bs : Nat) :
    (eraseData data missing k bs).length = k := by simp [eraseData]

theorem eraseParity_length (parity : List Bytes) (missing : List Nat) (k m bs : Nat) :
    (eraseParity parity missing k m bs).length = m := by simp [eraseParity]

/-- reconstruct on a stripe, both kinds of destination, in the shape of the contract. -/
theorem Stripe.rsReconstruct_correct {k m bs : Nat} {data parity : List Bytes}
    (st : Stripe k m bs data parity) (missing : List Nat) (hnd : missing.Nodup)
    (hlt : ∀ x ∈ missing, x < k + m) (hlen : missing.length ≤ m) {dest : Nat}
    (hd : dest ∈ missing) :
    ∃ d' p', rsReconstruct (genEntry k) k m (eraseData data missing k bs)
        (eraseParity parity missing k m bs) missing dest bs = some (d', p') ∧
      d'.length = k ∧ p'.length = m ∧ (d' ++ p').getD dest [] = (data ++ parity).getD dest [] := by
  by_cases hdk : dest < k
  · refine ⟨_, _, st.rsReconstruct_data missing hlen hd hdk, ?_, eraseParity_length .., ?_⟩
    · rw [List.length_set, eraseData_length]
    · have h1 : dest < ((eraseData data missing k bs).set dest (data.getD dest [])).length := by
        rw [List.length_set, eraseData_length]; exact hdk
      have h2 : dest < data.length := by rw [st.hdl]; exact hdk
      rw [getD_append_left' h1, getD_append_left' h2,
        getD_set_self' (by rw [eraseData_length]; exact hdk)]
  · have hdn := hlt dest hd
    have hdk' : k ≤ dest := by omega
    refine ⟨_, _, st.rsReconstruct_parity missing hnd hlen hd hdk' hdn, eraseData_length ..,
      ?_, ?_⟩
    · rw [List.length_set, eraseParity_length]
    · have hp1 : dest - k < ((eraseParity parity missing k m bs).set (dest - k)
          (parity.getD (dest - k) [])).length := by
        rw [List.length_set, eraseParity_length]; omega
      have hp2 : dest - k < parity.length := by rw [st.hpl]; omega
      rw [getD_append_right' (by rw [eraseData_length]; exact hdk'),
        getD_append_right' (by rw [st.hdl]; exact hdk'), eraseData_length, st.hdl,
        getD_set_self' (by rw [eraseParity_length]; omega)]

/-- (3) decode / reconstruct contract with tolerance `missing.length ≤ m`, even block sizes. -/
theorem rs_decodeOK {k m : Nat} (hkm : k + m ≤ 65536) :
    DecodeOK (rsBackend (genEntry k) k m) k m (fun l => l.length ≤ m) (fun bs => bs % 2 = 0) where
  decode := by
    intro bs dataP parP missing hbs hst _ htol
    have st := hst.toStripe hkm hbs
    rw [eraseBufs_data _ _ _ hst.dlen, eraseBufs_parity _ _ _ _ hst.plen]
    show liftOpt (rsDecode (genEntry k) k m _ _ missing bs) = _
    rw [st.rsDecode_correct missing htol]
    rfl
  reconstruct := by
    intro bs dataP parP missing dest hbs hst hmo htol hd
    have st := hst.toStripe hkm hbs
    rw [eraseBufs_data _ _ _ hst.dlen, eraseBufs_parity _ _ _ _ hst.plen]
    obtain ⟨d', p', h, h1, h2, h3⟩ := st.rsReconstruct_correct missing hmo.nodup hmo.2 htol hd
    refine ⟨d', p', ?_, h1, h2, h3⟩
    show liftOpt (rsReconstruct (genEntry k) k m _ _ missing dest bs) = _
    rw [h]; rfl

/-- (4) no silent corruption: within tolerance nothing faults and successes are the truth. -/
theorem rs_decodeSound {k m : Nat} (hkm : k + m ≤ 65536) :
    DecodeSound (rsBackend (genEntry k) k m) k m (fun bs => bs % 2 = 0) where
  decode := by
    intro bs dataP parP missing d' p' hbs hst hmo hlen h
    rw [(rs_decodeOK hkm).decode bs dataP parP missing hbs hst hmo hlen] at h
    simp only [Except.ok.injEq, Prod.mk.injEq] at h
    exact h.1.symm
  decode_nocrash := by
    intro bs dataP parP missing hbs hst hmo hlen
    rw [(rs_decodeOK hkm).decode bs dataP parP missing hbs hst hmo hlen]
    simp
  reconstruct := by
    intro bs dataP parP missing dest d' p' hbs hst hmo hlen hd h
    obtain ⟨d'', p'', h', h1, h2, h3⟩ :=
      (rs_decodeOK hkm).reconstruct bs dataP parP missing dest hbs hst hmo hlen hd
    rw [h'] at h
    simp only [Except.ok.injEq, Prod.mk.injEq] at h
    obtain ⟨rfl, rfl⟩ := h
    exact ⟨h1, h2, h3⟩
  reconstruct_nocrash := by
    intro bs dataP parP missing dest hbs hst hmo hlen hd
    obtain ⟨d'', p'', h', _⟩ :=
      (rs_decodeOK hkm).reconstruct bs dataP parP missing dest hbs hst hmo hlen hd
    rw [h']
    simp

/-! ### `rsNeeded` -/

/-- the candidate list of `rsNeeded`. -/
def rsCand (k m : Nat) (rec excl : List Nat) : List Nat :=
  (List.range (k + m)).filter fun i => !(inBitmap rec i || inBitmap excl i)

theorem rsNeeded_eq (k m : Nat) (rec excl : List Nat) :
    rsNeeded k m rec excl =
      if (rsCand k m rec excl).length ≥ k && k > 0 then .ok ((rsCand k m rec excl).take k)
      else .error (.rc (-1)) := rfl

theorem mem_rsCand {k m : Nat} {rec excl : List Nat} {i : Nat} :
    i ∈ rsCand k m rec excl ↔ i < k + m ∧ i ∉ rec ∧ i ∉ excl := by
  simp [rsCand, inBitmap]

theorem rsCand_nodup (k m : Nat) (rec excl : List Nat) : (rsCand k m rec excl).Nodup :=
  List.nodup_range.filter _

theorem rsCand_toFinset (k m : Nat) (rec excl : List Nat) :
    (rsCand k m rec excl).toFinset = range (k + m) \ (rec ++ excl).toFinset := by
  ext i
  simp [mem_rsCand]

theorem rsCand_length_ge (k m : Nat) (rec excl : List Nat) :
    k + m - (rec ++ excl).toFinset.card ≤ (rsCand k m rec excl).length := by
  rw [← List.toFinset_card_of_nodup (rsCand_nodup k m rec excl), rsCand_toFinset]
  have := Finset.le_card_sdiff (rec ++ excl).toFinset (range (k + m))
  simpa using this

theorem rsCand_length_eq {k m : Nat} {rec excl : List Nat} (hR : ∀ i ∈ rec, i < k + m)
    (hX : ∀ i ∈ excl, i < k + m) :
    (rsCand k m rec excl).length = k + m - (rec ++ excl).toFinset.card := by
  rw [← List.toFinset_card_of_nodup (rsCand_nodup k m rec excl), rsCand_toFinset,
    Finset.card_sdiff_of_subset, Finset.card_range]
  intro i hi
  simp only [List.toFinset_append, Finset.mem_union, List.mem_toFinset] at hi
  rcases hi with h | h
  · exact Finset.mem_range.mpr (hR i h)
  · exact Finset.mem_range.mpr (hX i h)

/-- (5) at most `m` distinct excluded indexes: `rsNeeded` returns `k` strictly ascending
    indexes below `k+m`, none of them received-or-excluded. -/
theorem rsNeeded_ok {k m : Nat} (hk : 1 ≤ k) (rec excl : List Nat)
    (hc : (rec ++ excl).toFinset.card ≤ m) :
    ∃ N, rsNeeded k m rec excl = .ok N ∧ N.length = k ∧ N.Pairwise (· < ·) ∧
      ∀ i ∈ N, i < k + m ∧ i ∉ rec ∧ i ∉ excl := by
  have hge := rsCand_length_ge k m rec excl
  have hlen : k ≤ (rsCand k m rec excl).length := by omega
  refine ⟨(rsCand k m rec excl).take k, ?_, ?_, ?_, ?_⟩
  · rw [rsNeeded_eq, if_pos]
    simp only [ge_iff_le, gt_iff_lt, Bool.and_eq_true, decide_eq_true_eq]
    exact ⟨hlen, hk⟩
  · rw [List.length_take]; omega
  · exact (List.Pairwise.filter _ List.pairwise_lt_range).take
  · intro i hi
    exact mem_rsCand.mp (List.mem_of_mem_take hi)

/-- (5) more than `m` distinct indexes (all below `k+m`) excluded: return code -1. -/
theorem rsNeeded_error {k m : Nat} (rec excl : List Nat) (hR : ∀ i ∈ rec, i < k + m)
    (hX : ∀ i ∈ excl, i < k + m) (hc : m < (rec ++ excl).toFinset.card) :
    rsNeeded k m rec excl = .error (.rc (-1)) := by
  have hlen := rsCand_length_eq hR hX
  rw [rsNeeded_eq, if_neg]
  simp only [ge_iff_le, gt_iff_lt, Bool.and_eq_true, decide_eq_true_eq, not_and]
  intro h
  omega

theorem rsNeeded_error_zero (m : Nat) (rec excl : List Nat) :
    rsNeeded 0 m rec excl = .error (.rc (-1)) := by
  rw [rsNeeded_eq, if_neg]
  simp

/-- (5) sufficiency: the `k` generator rows named by `rsNeeded` form an invertible matrix. -/
theorem rsNeeded_invertible {k m : Nat} (hkm : k + m ≤ 65536) {rec excl N : List Nat}
    (h : rsNeeded k m rec excl = .ok N) :
    N.length = k ∧ (genMatrix k (fun a => N.getD a 0)).det ≠ 0 := by
  rw [rsNeeded_eq] at h
  split at h
  · rename_i hc
    simp only [ge_iff_le, gt_iff_lt, Bool.and_eq_true, decide_eq_true_eq] at hc
    simp only [Except.ok.injEq] at h
    subst h
    have hl : ((rsCand k m rec excl).take k).length = k := by rw [List.length_take]; omega
    have hnd : ((rsCand k m rec excl).take k).Nodup :=
      List.Nodup.sublist (List.take_sublist _ _) (rsCand_nodup k m rec excl)
    refine ⟨hl, genMatrix_det_ne_zero hkm _ ?_ ?_⟩
    · intro a b hab
      have ha : a.val < ((rsCand k m rec excl).take k).length := by rw [hl]; exact a.isLt
      have hb : b.val < ((rsCand k m rec excl).take k).length := by rw [hl]; exact b.isLt
      simp only [getD_eq_getElem' ha, getD_eq_getElem' hb] at hab
      exact Fin.ext (hnd.getElem_inj_iff.mp hab)
    · intro a
      have ha : a.val < ((rsCand k m rec excl).take k).length := by rw [hl]; exact a.isLt
      rw [getD_eq_getElem' ha]
      exact (mem_rsCand.mp (List.mem_of_mem_take (List.getElem_mem ha))).1
  · cases h

theorem rsBackend_needed (G : Nat → Nat → Nat) (k m : Nat) :
    (rsBackend G k m).needed = rsNeeded k m := rfl

end Lec

#print axioms Lec.rs_encodeOK_all
#print axioms Lec.rs_encodeOK
#print axioms Lec.rs_isStripe
#print axioms Lec.rs_decodeOK
#print axioms Lec.rs_decodeSound
#print axioms Lec.rsNeeded_ok
#print axioms Lec.rsNeeded_error
#print axioms Lec.rsNeeded_invertible
