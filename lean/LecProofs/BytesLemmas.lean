/-
  LecProofs.BytesLemmas — little-endian encode/decode and buffer overwrite lemmas.
-/
import LecModel.Bytes
namespace Lec

@[simp] theorem leBytes_length (w n : Nat) : (leBytes w n).length = w := by
  induction w generalizing n with
  | zero => rfl
  | succ w ih => simp [leBytes, ih]

@[simp] theorem le32_length (n : Nat) : (le32 n).length = 4 := leBytes_length 4 n
@[simp] theorem le64_length (n : Nat) : (le64 n).length = 8 := leBytes_length 8 n
@[simp] theorem le16_length (n : Nat) : (le16 n).length = 2 := leBytes_length 2 n
@[simp] theorem zeros_length (n : Nat) : (zeros n).length = n := by simp [zeros]

theorem leVal_leBytes (w n : Nat) : leVal (leBytes w n) = n % 256 ^ w := by
  induction w generalizing n with
  | zero => simp [leBytes, leVal, Nat.mod_one]
  | succ w ih =>
    simp only [leBytes, leVal, ih]
    have h1 : (UInt8.ofNat (n % 256)).toNat = n % 256 := by
      simp [UInt8.toNat_ofNat']
    rw [h1, Nat.pow_succ, Nat.mul_comm (256 ^ w) 256, Nat.mod_mul]

theorem leVal_leBytes_of_lt {w n : Nat} (h : n < 256 ^ w) : leVal (leBytes w n) = n := by
  rw [leVal_leBytes, Nat.mod_eq_of_lt h]

theorem leVal_lt (b : Bytes) : leVal b < 256 ^ b.length := by
  induction b with
  | nil => simp [leVal]
  | cons x xs ih =>
    simp only [leVal, List.length_cons, Nat.pow_succ]
    have := x.toNat_lt
    omega

theorem leBytes_leVal (b : Bytes) : leBytes b.length (leVal b) = b := by
  induction b with
  | nil => rfl
  | cons x xs ih =>
    simp only [List.length_cons, leBytes, leVal]
    have hx := x.toNat_lt
    have h1 : (x.toNat + 256 * leVal xs) % 256 = x.toNat := by omega
    have h2 : (x.toNat + 256 * leVal xs) / 256 = leVal xs := by omega
    rw [h1, h2, ih]
    simp

/-! ### reading -/

theorem rdBytes_append_mid (a b c : Bytes) : rdBytes (a ++ b ++ c) a.length b.length = b := by
  simp [rdBytes]

theorem rdBytes_of_le {b : Bytes} {off w : Nat} (h : off + w ≤ b.length) :
    rdBytes b off w = (b.drop off).take w := by
  simp only [rdBytes]
  have : ((b.drop off).take w).length = w := by
    rw [List.length_take, List.length_drop]; omega
  rw [this]; simp

/-! ### writing -/

@[simp] theorem wrBytes_length (b : Bytes) (off : Nat) (src : Bytes) :
    (wrBytes b off src).length = b.length := by
  simp only [wrBytes, List.length_append, List.length_take, List.length_drop]
  omega

theorem wrBytes_zero_exact {b src : Bytes} (h : src.length = b.length) : wrBytes b 0 src = src := by
  simp only [wrBytes, List.take_zero, List.nil_append, Nat.sub_zero, Nat.zero_add]
  rw [List.take_of_length_le (by omega), List.drop_of_length_le (by omega)]; simp

theorem wrBytes_append_left {a b src : Bytes} {off : Nat} (h : off + src.length ≤ a.length) :
    wrBytes (a ++ b) off src = wrBytes a off src ++ b := by
  simp only [wrBytes, List.length_append]
  have h1 : List.take off (a ++ b) = List.take off a := by
    rw [List.take_append_of_le_length (by omega)]
  have h2 : List.take (a.length + b.length - off) src = src := List.take_of_length_le (by omega)
  have h3 : List.take (a.length - off) src = src := List.take_of_length_le (by omega)
  have h4 : List.drop (off + src.length) (a ++ b) = List.drop (off + src.length) a ++ b := by
    rw [List.drop_append_of_le_length h]
  rw [h1, h2, h3, h4]; simp

theorem wrBytes_append_right {a b src : Bytes} {off : Nat} (h : a.length ≤ off) :
    wrBytes (a ++ b) off src = a ++ wrBytes b (off - a.length) src := by
  simp only [wrBytes, List.length_append]
  have h1 : List.take off (a ++ b) = a ++ List.take (off - a.length) b := by
    rw [List.take_append]; simp [List.take_of_length_le h]
  have h4 : List.drop (off + src.length) (a ++ b) = List.drop (off - a.length + src.length) b := by
    rw [List.drop_append]
    have : List.drop (off + src.length) a = [] := List.drop_of_length_le (by omega)
    rw [this]; simp; congr 1; omega
  rw [h1, h4]
  have : a.length + b.length - off = b.length - (off - a.length) := by omega
  rw [this]; simp

/-- overwrite exactly one segment. -/
theorem wrBytes_mid {a old c new : Bytes} {off : Nat} (ha : a.length = off)
    (hl : new.length = old.length) : wrBytes (a ++ old ++ c) off new = a ++ new ++ c := by
  rw [List.append_assoc, wrBytes_append_right (by omega), wrBytes_append_left (by omega)]
  have : off - a.length = 0 := by omega
  rw [this, wrBytes_zero_exact hl]; simp

end Lec
