/-
  LecProofs.XorContracts — the flat-XOR backend record `xorBackend T` satisfies the front-end
  contracts of LecProofs.Contracts / LecProofs.EncodeLemmas (block-size predicate `fun _ => True`).

  * `xor_encodeOK`       : `EncodeOK (xorBackend T) T.k T.m` for every table (generic)
  * `xor_isStripe_iff`   : `IsStripe (xorBackend T) …` ↔ parity j = xor of the data named by `pbm j`
  * `xor_decodeOK`       : `DecodeOK (xorBackend T) T.k T.m (·.length < T.hd) _` for generated tables
  * `xor_decodeSound`    : `DecodeSound (xorBackend T) T.k T.m _` for generated tables: beyond the
                           tolerance decode answers `.error (.rc (-1))`; reconstruct either takes one
                           of its two single-equation shortcuts — proved correct generically for
                           every well-formed table and every missing list — or answers `.rc (-1)`
  * `xor_backend_errors_negative`, `xorTables_tolerance`
-/
import LecModel.Backends
import LecProofs.Contracts
import LecProofs.EncodeLemmas
import LecProofs.XorBackendOK
namespace Lec

/-! ### generic facts about `XState` and `runOps` -/

namespace XState
variable {V : Type}

/-- `b` names an existing buffer of `s`. -/
def Has (s : XState V) : Buf → Prop
  | .data i => i < s.data.length
  | .parity j => j < s.parity.length
  | .tmp => True

theorem get_set_eq {s : XState V} {b : Buf} (h : s.Has b) (z v : V) : (s.set b v).get z b = v := by
  cases b with
  | data i => simp only [Has] at h; simp [set, get, h]
  | parity j => simp only [Has] at h; simp [set, get, h]
  | tmp => rfl

theorem get_set_ne {s : XState V} {b b' : Buf} (hne : b' ≠ b) (z v : V) :
    (s.set b v).get z b' = s.get z b' := by
  cases b with
  | data i =>
    cases b' with
    | data i' =>
      simp only [set, get, getD_set']
      rw [if_neg]; rintro ⟨e, _⟩; exact hne (by rw [e])
    | parity j' => rfl
    | tmp => rfl
  | parity j =>
    cases b' with
    | data i' => rfl
    | parity j' =>
      simp only [set, get, getD_set']
      rw [if_neg]; rintro ⟨e, _⟩; exact hne (by rw [e])
    | tmp => rfl
  | tmp =>
    cases b' with
    | data i' => rfl
    | parity j' => rfl
    | tmp => exact absurd rfl hne

theorem set_set (s : XState V) (b : Buf) (v w : V) : (s.set b v).set b w = s.set b w := by
  cases b <;> simp [set, List.set_set]

theorem has_set {s : XState V} {b b' : Buf} (v : V) : (s.set b v).Has b' ↔ s.Has b' := by
  cases b <;> cases b' <;> simp [set, Has]

end XState

def Op.dst : Op → Buf
  | .copy d _ => d
  | .xorInto _ d => d
  | .zero d => d

theorem runOp_data_of_parity_dst {V : Type} (xor : V → V → V) (zero : V) (s : XState V) (op : Op)
    (h : ∃ j, op.dst = .parity j) : (runOp xor zero s op).data = s.data := by
  obtain ⟨j, hj⟩ := h
  cases op <;> simp only [Op.dst] at hj <;> subst hj <;> rfl

theorem runOps_data_of_parity_dst {V : Type} (xor : V → V → V) (zero : V) (ops : List Op)
    (h : ∀ op ∈ ops, ∃ j, op.dst = .parity j) (s : XState V) :
    (runOps xor zero ops s).data = s.data := by
  induction ops generalizing s with
  | nil => rfl
  | cons op ops ih =>
    simp only [runOps, List.foldl_cons] at ih ⊢
    rw [ih (fun o ho => h o (by simp [ho])), runOp_data_of_parity_dst _ _ _ _ (h op (by simp))]

theorem encodeOps_dst (T : XorTable) : ∀ op ∈ T.encodeOps, ∃ j, op.dst = .parity j := by
  intro op hop
  simp only [XorTable.encodeOps, List.mem_flatMap, List.mem_map] at hop
  obtain ⟨i, _, j, _, rfl⟩ := hop
  exact ⟨j, rfl⟩

/-- all buffers of the state have `bs` bytes. -/
def XState.AllLen (bs : Nat) (s : XState Bytes) : Prop :=
  (∀ b ∈ s.data, b.length = bs) ∧ (∀ b ∈ s.parity, b.length = bs) ∧ s.tmp.length = bs

theorem XState.AllLen.get {bs : Nat} {s : XState Bytes} (h : s.AllLen bs) (b : Buf) :
    (s.get (zeros bs) b).length = bs := by
  cases b with
  | data i =>
    simp only [XState.get]
    by_cases hi : i < s.data.length
    · rw [getD_of_lt hi]; exact h.1 _ (List.getElem_mem _)
    · rw [getD_of_length_le (Nat.le_of_not_lt hi)]; simp [zeros]
  | parity j =>
    simp only [XState.get]
    by_cases hj : j < s.parity.length
    · rw [getD_of_lt hj]; exact h.2.1 _ (List.getElem_mem _)
    · rw [getD_of_length_le (Nat.le_of_not_lt hj)]; simp [zeros]
  | tmp => exact h.2.2

theorem XState.AllLen.set {bs : Nat} {s : XState Bytes} (h : s.AllLen bs) (b : Buf) {v : Bytes}
    (hv : v.length = bs) : (s.set b v).AllLen bs := by
  cases b with
  | data i =>
    refine ⟨?_, h.2.1, h.2.2⟩
    intro x hx
    rcases List.mem_or_eq_of_mem_set hx with h1 | h1
    · exact h.1 x h1
    · rw [h1]; exact hv
  | parity j =>
    refine ⟨h.1, ?_, h.2.2⟩
    intro x hx
    rcases List.mem_or_eq_of_mem_set hx with h1 | h1
    · exact h.2.1 x h1
    · rw [h1]; exact hv
  | tmp => exact ⟨h.1, h.2.1, hv⟩

theorem runOps_allLen {bs : Nat} (ops : List Op) {s : XState Bytes} (h : s.AllLen bs) :
    (runOps xorBytes (zeros bs) ops s).AllLen bs := by
  induction ops generalizing s with
  | nil => exact h
  | cons op ops ih =>
    simp only [runOps, List.foldl_cons] at ih ⊢
    apply ih
    cases op with
    | copy dst src => exact h.set dst (h.get src)
    | xorInto src dst =>
      exact h.set dst (by rw [xorBytes_length, h.get src, h.get dst, Nat.min_self])
    | zero dst => exact h.set dst (by simp [zeros])

/-! ### encode contract (every table) -/

theorem zip_take_drop (bs : Nat) (d : List Bytes) :
    (List.zip (d.map (·.take bs)) d).map (fun (a, b) => a ++ b.drop bs) = d := by
  induction d with
  | nil => rfl
  | cons x d ih => simp only [List.map_cons, List.zip_cons_cons, ih, List.take_append_drop]

/-- `xorRunBytes` returns the data buffers unchanged when the plan only writes parity buffers. -/
theorem xorRunBytes_data_kept (ops : List Op) (h : ∀ op ∈ ops, ∃ j, op.dst = .parity j)
    (d p : List Bytes) (bs : Nat) (d' p' : List Bytes) (hr : xorRunBytes ops d p bs = .ok (d', p')) :
    d' = d := by
  unfold xorRunBytes at hr
  split at hr
  · cases hr
  · simp only [Except.ok.injEq, Prod.mk.injEq] at hr
    rw [← hr.1, runOps_data_of_parity_dst _ _ _ h]
    exact zip_take_drop bs d

theorem xor_encodeOK (T : XorTable) : EncodeOK (xorBackend T) T.k T.m where
  data_kept := by
    intro d p bs d' p' h
    exact xorRunBytes_data_kept T.encodeOps (encodeOps_dst T) d p bs d' p' h
  parity_len := by
    intro d p bs d' p' _ _ hm hd hp h
    have h' : xorRunBytes T.encodeOps d p bs = .ok (d', p') := h
    rw [xorRunBytes_exact _ _ _ _ hd hp] at h'
    simp only [Except.ok.injEq, Prod.mk.injEq] at h'
    have hal : (XState.mk d p (zeros bs)).AllLen bs := ⟨hd, hp, by simp [zeros]⟩
    have h2 := runOps_allLen T.encodeOps hal
    rw [← h'.2]
    exact ⟨by rw [(runOps_lengths _ _ _ _).2, hm], h2.2.1⟩

/-! ### stripes -/

/-- a stripe of the flat-XOR backend: k data payloads of `bs` bytes, and parity j the xor of
    the data payloads named by `parityBms[j]`. -/
theorem xor_isStripe_iff (T : XorTable) (bs : Nat) (dataP parP : List Bytes) :
    IsStripe (xorBackend T) T.k T.m bs dataP parP ↔
      dataP.length = T.k ∧ (∀ x ∈ dataP, x.length = bs) ∧
      parP = (List.range T.m).map (fun j => interp bs dataP (T.pbm j)) := by
  constructor
  · intro h
    refine ⟨h.dlen, h.dsz, ?_⟩
    have := h.enc
    rw [xorBackend_encode T bs dataP h.dlen h.dsz] at this
    simp only [Except.ok.injEq, Prod.mk.injEq, true_and] at this
    exact this.symm
  · rintro ⟨h1, h2, rfl⟩
    refine ⟨h1, h2, xorBackend_encode T bs dataP h1 h2, by simp, ?_⟩
    intro x hx
    obtain ⟨j, _, rfl⟩ := List.mem_map.1 hx
    exact interp_length h2 _

/-! ### the front end's erased buffers are the erased stripe state -/

theorem eraseBufs_data_eq (T : XorTable) (bs : Nat) (d : List Bytes) (hk : d.length = T.k)
    (E : List Nat) :
    eraseBufs d E 0 bs = (xorEraseBufs (zeros bs) T E (T.stripe bs d)).data := by
  have hl := (eraseBufs_lengths (zeros bs) T E (T.stripe bs d)).1
  apply List.ext_getElem
  · rw [hl]; simp [eraseBufs, XorTable.stripe]
  · intro i h1 h2
    have hi : i < d.length := by simpa [eraseBufs] using h1
    rw [← getD_of_lt h2 (zeros bs), eraseBufs_data_getD]
    simp only [eraseBufs, List.getElem_map, List.getElem_zipIdx, List.contains_eq_mem,
      Nat.zero_add, Nat.add_zero, XorTable.stripe]
    rw [getD_of_lt hi]
    by_cases he : i ∈ E
    · simp [he, hk ▸ hi]
    · simp [he]

theorem eraseBufs_parity_eq (T : XorTable) (bs : Nat) (d : List Bytes) (E : List Nat) :
    eraseBufs (T.stripe bs d).parity E T.k bs = (xorEraseBufs (zeros bs) T E (T.stripe bs d)).parity := by
  have hl := (eraseBufs_lengths (zeros bs) T E (T.stripe bs d)).2
  apply List.ext_getElem
  · rw [hl]; simp [eraseBufs]
  · intro j h1 h2
    have hj : j < (T.stripe bs d).parity.length := by simpa [eraseBufs] using h1
    rw [← getD_of_lt h2 (zeros bs), eraseBufs_parity_getD]
    simp only [eraseBufs, List.getElem_map, List.getElem_zipIdx, List.contains_eq_mem, Nat.zero_add]
    rw [getD_of_lt hj, Nat.add_comm j T.k]
    by_cases he : T.k + j ∈ E
    · simp [he]
    · simp [he]

/-- `runPlan` on the erased stripe (buffers of exactly `bs` bytes) is `runOps` on that state. -/
theorem runPlan_erased (T : XorTable) (bs : Nat) (d : List Bytes) (hd : ∀ x ∈ d, x.length = bs)
    (E : List Nat) (plan : Except XErr (List Op)) :
    runPlan plan (xorEraseBufs (zeros bs) T E (T.stripe bs d)).data
        (xorEraseBufs (zeros bs) T E (T.stripe bs d)).parity bs =
      match plan with
      | .ok ops =>
        .ok ((runOps xorBytes (zeros bs) ops (xorEraseBufs (zeros bs) T E (T.stripe bs d))).data,
             (runOps xorBytes (zeros bs) ops (xorEraseBufs (zeros bs) T E (T.stripe bs d))).parity)
      | .error e => .error (xerrToFail e) := by
  cases plan with
  | error e => rfl
  | ok ops =>
    obtain ⟨l1, l2⟩ := eraseBufs_lens bs T E _ (stripe_lens T hd).1 (stripe_lens T hd).2
    show xorRunBytes ops _ _ bs = _
    rw [xorRunBytes_exact _ _ _ _ l1 l2]
    have e : (⟨(xorEraseBufs (zeros bs) T E (T.stripe bs d)).data,
        (xorEraseBufs (zeros bs) T E (T.stripe bs d)).parity, zeros bs⟩ : XState Bytes)
        = xorEraseBufs (zeros bs) T E (T.stripe bs d) := by
      have := eraseBufs_tmp (zeros bs) T E (T.stripe bs d)
      cases hx : xorEraseBufs (zeros bs) T E (T.stripe bs d) with
      | mk a b c => rw [hx] at this; simp only [XorTable.stripe] at this; simp [this]
    rw [e]

/-- reading fragment `dest` of `data ++ parity` is reading its buffer. -/
theorem getD_append_bufOf (T : XorTable) (A B : List Bytes) (t z : Bytes) (hA : A.length = T.k)
    (hB : B.length = T.m) {dest : Nat} (hdest : dest < T.k + T.m) :
    (A ++ B).getD dest [] = (XState.mk A B t).get z (T.bufOf dest) := by
  unfold XorTable.bufOf
  have hlen : dest < (A ++ B).length := by rw [List.length_append, hA, hB]; exact hdest
  rw [getD_of_lt hlen]
  by_cases h : dest < T.k
  · have hA' : dest < A.length := by rw [hA]; exact h
    simp only [h, if_true, XState.get]
    rw [getD_of_lt hA', List.getElem_append_left hA']
  · have hB' : dest - T.k < B.length := by rw [hB]; omega
    simp only [h, if_false, XState.get]
    rw [getD_of_lt hB', List.getElem_append_right (by rw [hA]; omega)]
    simp [hA]

/-- packaging of a correct reconstruct plan into the shape the contracts use. -/
theorem recon_finish (T : XorTable) (bs : Nat) (d : List Bytes) (hk : d.length = T.k)
    (hd : ∀ x ∈ d, x.length = bs) (E : List Nat) {dest : Nat} (hdest : dest < T.k + T.m)
    (ops : List Op) (hp : T.planReconOne E dest = .ok ops)
    (hc : (runOps xorBytes (zeros bs) ops (xorEraseBufs (zeros bs) T E (T.stripe bs d))).get (zeros bs)
      (T.bufOf dest) = (T.stripe bs d).get (zeros bs) (T.bufOf dest)) :
    ∃ d' p', (xorBackend T).reconstruct (eraseBufs d E 0 bs) (eraseBufs (T.stripe bs d).parity E T.k bs)
        E dest bs = .ok (d', p') ∧ d'.length = T.k ∧ p'.length = T.m ∧
      (d' ++ p').getD dest [] = (d ++ (T.stripe bs d).parity).getD dest [] := by
  rw [eraseBufs_data_eq T bs d hk, eraseBufs_parity_eq]
  have hl := runOps_lengths xorBytes (zeros bs) ops (xorEraseBufs (zeros bs) T E (T.stripe bs d))
  have hl2 := eraseBufs_lengths (zeros bs) T E (T.stripe bs d)
  have h1 : (runOps xorBytes (zeros bs) ops (xorEraseBufs (zeros bs) T E (T.stripe bs d))).data.length
      = T.k := by rw [hl.1, hl2.1]; exact hk
  have h2 : (runOps xorBytes (zeros bs) ops (xorEraseBufs (zeros bs) T E (T.stripe bs d))).parity.length
      = T.m := by rw [hl.2, hl2.2]; simp [XorTable.stripe]
  refine ⟨_, _, ?_, h1, h2, ?_⟩
  · show runPlan (T.planReconOne E dest) _ _ bs = _
    rw [runPlan_erased T bs d hd, hp]
  · rw [getD_append_bufOf T _ _ (runOps xorBytes (zeros bs) ops
        (xorEraseBufs (zeros bs) T E (T.stripe bs d))).tmp (zeros bs) h1 h2 hdest,
      getD_append_bufOf T d _ (zeros bs) (zeros bs) hk (by simp [XorTable.stripe]) hdest]
    exact hc

/-! ### decode / reconstruct within the tolerance -/

theorem xor_decodeOK (T : XorTable) (hT : T ∈ LecGen.xorTables) :
    DecodeOK (xorBackend T) T.k T.m (fun l => l.length < T.hd) (fun _ => True) where
  decode := by
    intro bs dataP parP missing _ hS hM htol
    obtain ⟨h1, h2, rfl⟩ := (xor_isStripe_iff T bs dataP parP).1 hS
    have := eraseBufs_parity_eq T bs dataP missing
    simp only [XorTable.stripe] at this
    rw [eraseBufs_data_eq T bs dataP h1, this]
    exact xorBackend_decode T hT bs dataP h1 h2 missing ⟨hM.1, hM.2, htol⟩
  reconstruct := by
    intro bs dataP parP missing dest _ hS hM htol hdest
    obtain ⟨h1, h2, rfl⟩ := (xor_isStripe_iff T bs dataP parP).1 hS
    obtain ⟨ops, hp, hc⟩ := xorTables_recon_bytes T hT bs dataP h1 h2 missing ⟨hM.1, hM.2, htol⟩ dest hdest
    exact recon_finish T bs dataP h1 h2 missing (hM.2 dest hdest) ops hp hc

/-! ### beyond the tolerance: `planDecode` refuses -/

theorem ite_geHd (q r : FailPat) (h : r = .geHd) :
    (if q = .geHd then .geHd else r) = FailPat.geHd := by
  split
  · rfl
  · exact h

theorem failPattern_go_ge (T : XorTable) : ∀ (l : List Nat) (n : Nat) (p : FailPat),
    n < T.hd → T.hd ≤ n + l.length → XorTable.failPattern.go T l n p = .geHd
  | [], n, p, h1, h2 => by simp at h2; omega
  | x :: xs, n, p, h1, h2 => by
    simp only [XorTable.failPattern.go]
    by_cases hn : n + 1 ≥ T.hd
    · simp [hn]
    · exact ite_geHd _ _ (failPattern_go_ge T xs (n + 1) _ (by omega) (by simp at h2; omega))

/-- the failure counter reaches `hd` on the hd-th entry. -/
theorem failPattern_ge_hd (T : XorTable) (hhd : 0 < T.hd) (missing : List Nat)
    (h : T.hd ≤ missing.length) : T.failPattern missing = .geHd := by
  unfold XorTable.failPattern
  exact failPattern_go_ge T missing 0 _ hhd (by omega)

theorem planDecode_ge_hd (T : XorTable) (hhd : 0 < T.hd) (missing : List Nat)
    (h : T.hd ≤ missing.length) : T.planDecode missing = .error .neg1 := by
  unfold XorTable.planDecode
  simp only [failPattern_ge_hd T hhd missing h]

/-! ### error codes -/

theorem runPlan_error_negative (plan : Except XErr (List Op)) (d p : List Bytes) (bs : Nat) (e : Int)
    (h : runPlan plan d p bs = .error (.rc e)) : e < 0 := by
  cases plan with
  | error x =>
    cases x <;> simp [runPlan, xerrToFail] at h <;> omega
  | ok ops =>
    simp only [runPlan, xorRunBytes] at h
    split at h <;> cases h

/-- every return code of the flat-XOR decode / reconstruct adapters is negative (-1 or -2). -/
theorem xor_backend_errors_negative (T : XorTable) (d p : List Bytes) (missing : List Nat) (bs : Nat)
    (e : Int) :
    ((xorBackend T).decode d p missing bs = .error (.rc e) → e < 0) ∧
    (∀ dest, (xorBackend T).reconstruct d p missing dest bs = .error (.rc e) → e < 0) :=
  ⟨runPlan_error_negative _ d p bs e, fun _ => runPlan_error_negative _ d p bs e⟩

/-! ### the two shortcuts of `planReconOne`, for every well-formed table and every missing list -/

theorem foldl_congr_mem {α β : Type} (f g : α → β → α) (l : List β) (a : α)
    (h : ∀ a, ∀ b ∈ l, f a b = g a b) : l.foldl f a = l.foldl g a := by
  induction l generalizing a with
  | nil => rfl
  | cons x l ih =>
    simp only [List.foldl_cons]
    rw [h a x (by simp)]
    exact ih _ (fun a b hb => h a b (by simp [hb]))

/-- xor-ing data buffers `I` (none of them `b`) into buffer `b` accumulates them there. -/
theorem runOps_xorInto_acc {V : Type} (xor : V → V → V) (zero : V) (b : Buf) (I : List Nat)
    (hI : ∀ i ∈ I, Buf.data i ≠ b) (s : XState V) (hb : s.Has b) :
    (runOps xor zero (I.map fun i => Op.xorInto (.data i) b) s).get zero b =
      I.foldl (fun a i => xor (s.get zero (.data i)) a) (s.get zero b) := by
  induction I generalizing s with
  | nil => rfl
  | cons i I ih =>
    simp only [List.map_cons, runOps, List.foldl_cons] at ih ⊢
    rw [ih (fun i' hi' => hI i' (by simp [hi'])) (runOp xor zero s (.xorInto (.data i) b))
      (by simp only [runOp]; exact (XState.has_set _).2 hb)]
    simp only [runOp]
    rw [XState.get_set_eq hb]
    apply foldl_congr_mem
    intro a i' hi'
    rw [XState.get_set_ne (hI i' (by simp [hi']))]

theorem two_le_length_of_mem_ne {α : Type} {l : List α} {a b : α} (ha : a ∈ l) (hb : b ∈ l)
    (hne : a ≠ b) : 2 ≤ l.length := by
  cases l with
  | nil => simp at ha
  | cons x l =>
    cases l with
    | nil =>
      simp only [List.mem_singleton] at ha hb
      exact absurd (ha.trans hb.symm) hne
    | cons y l => simp

open XorCheck in
/-- **shortcut correctness, symbolically** — no enumeration: whenever `planReconOne` takes one
    of its single-equation shortcuts (`reconPlan = some ops`), the destination mask is restored,
    for every well-formed table and every missing list containing `dest`. -/
theorem recon_shortcut_sym (T : XorTable) (hwf : WF T) (E : List Nat) {dest : Nat}
    (hmem : dest ∈ E) (hdest : dest < T.k + T.m) (ops : List Op)
    (h : reconPlan T E dest = some ops) :
    (runOps (· ^^^ ·) 0 ops (xorEraseBufs 0 T E T.symGoal)).get 0 (T.bufOf dest)
      = T.symGoal.get 0 (T.bufOf dest) := by
  obtain ⟨sd, sp, _⟩ := eraseBufs_symGoal T E
  have hpb : ∀ j, j < T.m → T.pbm j < 2 ^ T.k := by
    intro j hj
    apply hwf.prange
    unfold XorTable.pbm
    rw [getD_of_lt (by rw [hwf.plen]; exact hj)]
    exact List.getElem_mem _
  -- reading the erased symbolic stripe
  have gdata : ∀ i, i < T.k → i ∉ E → (xorEraseBufs 0 T E T.symGoal).get 0 (.data i) = 1 <<< i := by
    intro i hi hiE
    simp only [XState.get, sd, getD_range_map, hi, hiE, if_true, if_false]
  have hasd : ∀ i, i < T.k → (xorEraseBufs 0 T E T.symGoal).Has (.data i) := by
    intro i hi; simp only [XState.Has, sd]; simpa using hi
  have hasp : ∀ j, j < T.m → (xorEraseBufs 0 T E T.symGoal).Has (.parity j) := by
    intro j hj; simp only [XState.Has, sp]; simpa using hj
  unfold reconPlan at h
  simp only [] at h
  by_cases hk : dest < T.k
  · -- data destination with a connected parity
    simp only [hk, if_true] at h
    split at h
    · next j hc =>
      simp only [Option.some.injEq] at h
      subst h
      have hj : j < T.m := List.mem_range.1 (List.mem_of_find?_eq_some hc)
      have hpred := List.find?_some hc
      simp only [Bool.and_eq_true, Bool.not_eq_true', decide_eq_false_iff_not,
        XorTable.dataInParity, List.contains_eq_mem] at hpred
      obtain ⟨⟨hnum, hbit⟩, hmp⟩ := hpred
      have hkj : T.k + j ∉ E := by
        intro hin
        apply hmp
        simp only [XorTable.missingParity, List.mem_filter]
        exact ⟨hin, by simp⟩
      have hgraph : (T.dbm dest).testBit j = true := by rw [← hwf.graph dest j hk hj]; exact hbit
      have hother : ∀ i, i < T.k → i ≠ dest → (T.pbm j).testBit i = true → i ∉ E := by
        intro i hi hne hb hiE
        apply hnum
        unfold XorTable.numMissingInParity
        apply two_le_length_of_mem_ne (a := dest) (b := i) _ _ (fun e => hne e.symm)
        · simp only [List.mem_filter, XorTable.missingData, decide_eq_true_eq]
          exact ⟨⟨hmem, hk⟩, hgraph⟩
        · simp only [List.mem_filter, XorTable.missingData, decide_eq_true_eq]
          exact ⟨⟨hiE, hi⟩, by rw [← hwf.graph i j hi hj]; exact hb⟩
      have gpar : (xorEraseBufs 0 T E T.symGoal).get 0 (.parity j) = T.pbm j := by
        simp only [XState.get, sp, getD_range_map, hj, hkj, if_true, if_false]
      unfold XorTable.bufOf
      simp only [hk, if_true, XorTable.recoverOps, runOps, List.foldl_cons]
      have acc := runOps_xorInto_acc (· ^^^ ·) 0 (.data dest)
        ((List.range T.k).filter fun i => i != dest && (T.pbm j).testBit i)
        (by
          intro i hi hcon
          simp only [List.mem_filter, Bool.and_eq_true, bne_iff_ne] at hi
          exact hi.2.1 (Buf.data.inj hcon))
        (runOp (· ^^^ ·) 0 (xorEraseBufs 0 T E T.symGoal) (.copy (.data dest) (.parity j)))
        (by simp only [runOp]; exact (XState.has_set _).2 (hasd dest hk))
      simp only [runOps] at acc
      rw [acc]
      simp only [runOp]
      rw [XState.get_set_eq (hasd dest hk), gpar]
      -- every source is an available unit mask
      rw [foldl_congr_mem _ (fun a i => (1 <<< i) ^^^ a)]
      · have hp : (fun i => i != dest && (T.pbm j).testBit i)
            = fun i => (T.pbm j ^^^ (1 <<< dest)).testBit i := by
          funext i
          rw [Nat.testBit_xor, Nat.one_shiftLeft, Nat.testBit_two_pow]
          by_cases e : dest = i
          · subst e; simp [hbit]
          · have : ¬ i = dest := fun h => e h.symm
            simp [e, this]
        rw [hp, List.foldl_filter, foldl_units]
        have hlt : T.pbm j ^^^ (1 <<< dest) < 2 ^ T.k := by
          apply Nat.xor_lt_two_pow (hpb j hj)
          rw [Nat.one_shiftLeft]; exact Nat.pow_lt_pow_right (by decide) hk
        rw [Nat.mod_eq_of_lt hlt, ← Nat.xor_assoc, Nat.xor_self, Nat.zero_xor]
        simp only [XState.get, XorTable.symGoal, getD_range_map, hk, if_true]
      · intro a i hi
        simp only [List.mem_filter, List.mem_range, Bool.and_eq_true, bne_iff_ne] at hi
        have hne : Buf.data i ≠ Buf.data dest := fun hcon => hi.2.1 (Buf.data.inj hcon)
        rw [XState.get_set_ne hne, gdata i hi.1 (hother i hi.1 hi.2.1 hi.2.2)]
    · cases h
  · -- parity destination with no missing member
    simp only [hk, if_false] at h
    split at h
    · next hnum =>
      simp only [Option.some.injEq] at h
      subst h
      have hj : dest - T.k < T.m := by omega
      have hmem0 : ∀ i, i < T.k → (T.pbm (dest - T.k)).testBit i = true → i ∉ E := by
        intro i hi hb hiE
        have hz : T.numMissingInParity (dest - T.k) (T.missingData E) = 0 := by simpa using hnum
        unfold XorTable.numMissingInParity at hz
        have : i ∈ (T.missingData E).filter fun d => (T.dbm d).testBit (dest - T.k) := by
          simp only [List.mem_filter, XorTable.missingData, decide_eq_true_eq]
          exact ⟨⟨hiE, hi⟩, by rw [← hwf.graph i _ hi hj]; exact hb⟩
        rw [List.length_eq_zero_iff] at hz
        rw [hz] at this
        simp at this
      unfold XorTable.bufOf
      simp only [hk, if_false, runOps, List.foldl_cons]
      have acc := runOps_xorInto_acc (· ^^^ ·) 0 (.parity (dest - T.k))
        ((List.range T.k).filter fun i => (T.pbm (dest - T.k)).testBit i)
        (by intro i _ hcon; cases hcon)
        (runOp (· ^^^ ·) 0 (xorEraseBufs 0 T E T.symGoal) (.zero (.parity (dest - T.k))))
        (by simp only [runOp]; exact (XState.has_set _).2 (hasp _ hj))
      simp only [runOps] at acc
      rw [acc]
      simp only [runOp]
      rw [XState.get_set_eq (hasp _ hj)]
      rw [foldl_congr_mem _ (fun a i => (1 <<< i) ^^^ a)]
      · rw [List.foldl_filter, foldl_units, Nat.zero_xor, Nat.mod_eq_of_lt (hpb _ hj)]
        simp only [XState.get, XorTable.symGoal, getD_range_map, hj, if_true]
      · intro a i hi
        simp only [List.mem_filter, List.mem_range] at hi
        have hne : Buf.data i ≠ Buf.parity (dest - T.k) := fun hcon => by cases hcon
        rw [XState.get_set_ne hne, gdata i hi.1 (hmem0 i hi.1 hi.2)]
    · cases h

/-- lifting one symbolic destination equation to bytes (every payload content and length). -/
theorem recon_lift (T : XorTable) {bs : Nat} {d : List Bytes} (hk : d.length = T.k)
    (hd : ∀ x ∈ d, x.length = bs) (E : List Nat) (ops : List Op) (b : Buf)
    (h : (runOps (· ^^^ ·) 0 ops (xorEraseBufs 0 T E T.symGoal)).get 0 b = T.symGoal.get 0 b) :
    (runOps xorBytes (zeros bs) ops (xorEraseBufs (zeros bs) T E (T.stripe bs d))).get (zeros bs) b
      = (T.stripe bs d).get (zeros bs) b := by
  have hl := lift_run hd ops (xorEraseBufs 0 T E T.symGoal) _ rfl
  rw [eraseBufs_map, interp_zero, T.symGoal_map hk hd] at hl
  rw [← hl, ← T.symGoal_map hk hd, ← interp_zero (bs := bs) (d := d), XState.get_map,
    XState.get_map, h]

/-! ### tolerance of the generated tables -/

theorem tables_hd_tol :
    LecGen.xorTables.all (fun t => decide (1 ≤ t.hd) && decide (t.hd - 1 ≤ t.m)) = true := by
  decide +kernel

/-- every generated table tolerates `hd - 1 ≤ m` erasures, so the front end's
    `missing.length ≤ m` check never rejects a set the code tolerates (and `hd ≥ 1`). -/
theorem xorTables_tolerance : ∀ T ∈ LecGen.xorTables, 1 ≤ T.hd ∧ T.hd - 1 ≤ T.m := by
  intro T hT
  have := XorCheck.all_tables_of_check tables_hd_tol T hT
  simpa using this

/-! ### what decode / reconstruct answer for every well-formed missing list -/

/-- decode on an erased stripe: exact within the tolerance, `.error (.rc (-1))` beyond it. -/
theorem xor_decode_result (T : XorTable) (hT : T ∈ LecGen.xorTables) (bs : Nat) (dataP : List Bytes)
    (h1 : dataP.length = T.k) (h2 : ∀ x ∈ dataP, x.length = bs) (missing : List Nat)
    (hM : MissingOK T.k T.m missing) :
    (missing.length < T.hd ∧
      (xorBackend T).decode (eraseBufs dataP missing 0 bs)
        (eraseBufs ((List.range T.m).map fun j => interp bs dataP (T.pbm j)) missing T.k bs) missing bs
        = .ok (dataP, (List.range T.m).map fun j => interp bs dataP (T.pbm j))) ∨
    (T.hd ≤ missing.length ∧
      (xorBackend T).decode (eraseBufs dataP missing 0 bs)
        (eraseBufs ((List.range T.m).map fun j => interp bs dataP (T.pbm j)) missing T.k bs) missing bs
        = .error (.rc (-1))) := by
  by_cases htol : missing.length < T.hd
  · left
    refine ⟨htol, ?_⟩
    exact (xor_decodeOK T hT).decode bs dataP _ missing trivial
      ((xor_isStripe_iff T bs dataP _).2 ⟨h1, h2, rfl⟩) hM htol
  · right
    refine ⟨Nat.le_of_not_lt htol, ?_⟩
    have hp : eraseBufs ((List.range T.m).map fun j => interp bs dataP (T.pbm j)) missing T.k bs
        = (xorEraseBufs (zeros bs) T missing (T.stripe bs dataP)).parity :=
      eraseBufs_parity_eq T bs dataP missing
    rw [eraseBufs_data_eq T bs dataP h1, hp]
    show runPlan (T.planDecode missing) _ _ bs = _
    rw [runPlan_erased T bs dataP h2 missing, planDecode_ge_hd T (xorTables_tolerance T hT).1 missing (Nat.le_of_not_lt htol)]
    rfl

/-- reconstruct on an erased stripe: either `.error (.rc (-1))`, or success with the
    destination fragment restored and the list lengths preserved. -/
theorem xor_reconstruct_result (T : XorTable) (hT : T ∈ LecGen.xorTables) (bs : Nat)
    (dataP : List Bytes) (h1 : dataP.length = T.k) (h2 : ∀ x ∈ dataP, x.length = bs)
    (missing : List Nat) (hM : MissingOK T.k T.m missing) (dest : Nat) (hdest : dest ∈ missing) :
    (xorBackend T).reconstruct (eraseBufs dataP missing 0 bs)
        (eraseBufs ((List.range T.m).map fun j => interp bs dataP (T.pbm j)) missing T.k bs)
        missing dest bs = .error (.rc (-1)) ∨
    ∃ d' p', (xorBackend T).reconstruct (eraseBufs dataP missing 0 bs)
        (eraseBufs ((List.range T.m).map fun j => interp bs dataP (T.pbm j)) missing T.k bs)
        missing dest bs = .ok (d', p') ∧ d'.length = T.k ∧ p'.length = T.m ∧
      (d' ++ p').getD dest [] =
        (dataP ++ (List.range T.m).map fun j => interp bs dataP (T.pbm j)).getD dest [] := by
  by_cases htol : missing.length < T.hd
  · right
    exact (xor_decodeOK T hT).reconstruct bs dataP _ missing dest trivial
      ((xor_isStripe_iff T bs dataP _).2 ⟨h1, h2, rfl⟩) hM htol hdest
  · have heq := XorCheck.planReconOne_eq T missing dest
    cases hrp : XorCheck.reconPlan T missing dest with
    | none =>
      left
      rw [hrp] at heq
      simp only [] at heq
      have hp : eraseBufs ((List.range T.m).map fun j => interp bs dataP (T.pbm j)) missing T.k bs
          = (xorEraseBufs (zeros bs) T missing (T.stripe bs dataP)).parity :=
        eraseBufs_parity_eq T bs dataP missing
      rw [eraseBufs_data_eq T bs dataP h1, hp]
      show runPlan (T.planReconOne missing dest) _ _ bs = _
      rw [runPlan_erased T bs dataP h2 missing, heq, planDecode_ge_hd T (xorTables_tolerance T hT).1 missing (Nat.le_of_not_lt htol)]
      rfl
    | some ops =>
      right
      rw [hrp] at heq
      simp only [] at heq
      have hsym := recon_shortcut_sym T (xorTables_wf T hT) missing hdest (hM.2 dest hdest) ops hrp
      have hbytes := recon_lift T h1 h2 missing ops _ hsym
      have := recon_finish T bs dataP h1 h2 missing (hM.2 dest hdest) ops heq hbytes
      simpa only [XorTable.stripe] using this

/-! ### no silent corruption -/

theorem xor_decodeSound (T : XorTable) (hT : T ∈ LecGen.xorTables) :
    DecodeSound (xorBackend T) T.k T.m (fun _ => True) where
  decode := by
    intro bs dataP parP missing d' p' _ hS hM _ h
    obtain ⟨h1, h2, rfl⟩ := (xor_isStripe_iff T bs dataP parP).1 hS
    rcases xor_decode_result T hT bs dataP h1 h2 missing hM with ⟨_, hr⟩ | ⟨_, hr⟩
    · rw [hr] at h
      simp only [Except.ok.injEq, Prod.mk.injEq] at h
      exact h.1.symm
    · rw [hr] at h; cases h
  decode_nocrash := by
    intro bs dataP parP missing _ hS hM _
    obtain ⟨h1, h2, rfl⟩ := (xor_isStripe_iff T bs dataP parP).1 hS
    rcases xor_decode_result T hT bs dataP h1 h2 missing hM with ⟨_, hr⟩ | ⟨_, hr⟩
    · rw [hr]; intro h; cases h
    · rw [hr]; intro h; cases h
  reconstruct := by
    intro bs dataP parP missing dest d' p' _ hS hM _ hdest h
    obtain ⟨h1, h2, rfl⟩ := (xor_isStripe_iff T bs dataP parP).1 hS
    rcases xor_reconstruct_result T hT bs dataP h1 h2 missing hM dest hdest with hr | ⟨d2, p2, hr, hl⟩
    · rw [hr] at h; cases h
    · rw [hr] at h
      simp only [Except.ok.injEq, Prod.mk.injEq] at h
      obtain ⟨rfl, rfl⟩ := h
      exact hl
  reconstruct_nocrash := by
    intro bs dataP parP missing dest _ hS hM _ hdest
    obtain ⟨h1, h2, rfl⟩ := (xor_isStripe_iff T bs dataP parP).1 hS
    rcases xor_reconstruct_result T hT bs dataP h1 h2 missing hM dest hdest with hr | ⟨d2, p2, hr, _⟩
    · rw [hr]; intro h; cases h
    · rw [hr]; intro h; cases h

/-- all contracts at once for the table `init_xor_hd_code` selects for a whitelisted shape. -/
theorem xor_contracts_for {k m hd : Nat} {T : XorTable} (h : LecGen.xorTableFor hd m k = some T) :
    EncodeOK (xorBackend T) k m ∧
    DecodeOK (xorBackend T) k m (fun l => l.length < hd) (fun _ => True) ∧
    DecodeSound (xorBackend T) k m (fun _ => True) ∧ 1 ≤ hd ∧ hd - 1 ≤ m := by
  obtain ⟨hT, rfl, rfl, rfl⟩ := XorCheck.tableFor_fields h
  exact ⟨xor_encodeOK T, xor_decodeOK T hT, xor_decodeSound T hT, xorTables_tolerance T hT⟩

end Lec

#print axioms Lec.xor_contracts_for
#print axioms Lec.xor_encodeOK
#print axioms Lec.xor_isStripe_iff
#print axioms Lec.xor_decodeOK
#print axioms Lec.recon_shortcut_sym
#print axioms Lec.failPattern_ge_hd
#print axioms Lec.xor_decode_result
#print axioms Lec.xor_reconstruct_result
#print axioms Lec.xor_decodeSound
#print axioms Lec.xor_backend_errors_negative
#print axioms Lec.xorTables_tolerance
