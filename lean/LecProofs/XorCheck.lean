/-
  LecProofs.XorCheck — kernel-friendly symbolic checker for the flat-XOR plans and its
  soundness with respect to the model's own `runOps` on `XState Nat`.

  Symbolic buffers are bit masks over the k data symbols (`xor = ^^^`, `zero = 0`).
  The checker packs the k + m + 1 buffers into the 32-bit lanes of one `Nat`
  (lane i = data i, lane k + j = parity j, lane k + m = tmp) and uses only
  `Nat.xor / Nat.land / Nat.shiftLeft / Nat.shiftRight`, which the kernel evaluates with GMP.
  `Rep k m s x` says "packed state `s` represents model state `x`"; every packed step is
  proved to follow the model's `runOp` (`rep_runOp`), so a `true` answer of the checker is
  a statement about `runOps (· ^^^ ·) 0` of the *model's* plan (`T.planDecode`,
  `T.planReconOne`) — the planners themselves are evaluated by the kernel unchanged.
-/
import LecModel.Xor
import LecProofs.XorLinear
namespace Lec
namespace XorCheck

/-! ### lanes -/

def lane (s i : Nat) : Nat := Nat.land (Nat.shiftRight s (Nat.mul 32 i)) 0xffffffff
/-- lane i ^= v -/
def xorLane (s i v : Nat) : Nat := Nat.xor s (Nat.shiftLeft v (Nat.mul 32 i))

theorem lane_eq (s i : Nat) : lane s i = (s >>> (32 * i)) % 2 ^ 32 := by
  show (s >>> (32 * i)) &&& (2 ^ 32 - 1) = _
  exact Nat.and_two_pow_sub_one_eq_mod _ _

theorem lane_lt (s i : Nat) : lane s i < 2 ^ 32 := by
  rw [lane_eq]; exact Nat.mod_lt _ (by decide)

theorem testBit_lane (s i b : Nat) :
    (lane s i).testBit b = (decide (b < 32) && s.testBit (32 * i + b)) := by
  rw [lane_eq, Nat.testBit_mod_two_pow, Nat.testBit_shiftRight]

theorem testBit_of_lt32 {v : Nat} (h : v < 2 ^ 32) {b : Nat} (hb : 32 ≤ b) : v.testBit b = false := by
  apply Nat.testBit_lt_two_pow
  exact Nat.lt_of_lt_of_le h (Nat.pow_le_pow_right (by decide) hb)

theorem lane_xorLane {s d v : Nat} (h : v < 2 ^ 32) (e : Nat) :
    lane (xorLane s d v) e = if e = d then lane s d ^^^ v else lane s e := by
  apply Nat.eq_of_testBit_eq
  intro b
  have hx : xorLane s d v = s ^^^ (v <<< (32 * d)) := rfl
  rw [testBit_lane, hx, Nat.testBit_xor, Nat.testBit_shiftLeft]
  by_cases hb : b < 32
  · by_cases hed : e = d
    · subst hed
      simp only [if_true, Nat.testBit_xor, testBit_lane, hb, decide_true, Bool.true_and]
      have : 32 * e + b ≥ 32 * e := by omega
      simp only [this, decide_true, Bool.true_and]
      congr 2; omega
    · simp only [hed, if_false, testBit_lane, hb, decide_true, Bool.true_and]
      by_cases hlt : e < d
      · have : ¬ (32 * e + b ≥ 32 * d) := by omega
        simp [this]
      · have : v.testBit (32 * e + b - 32 * d) = false := testBit_of_lt32 h (by omega)
        simp [this]
  · have h1 : (lane s e).testBit b = false := by rw [testBit_lane]; simp [hb]
    have h2 : (lane s d ^^^ v).testBit b = false := by
      rw [Nat.testBit_xor, testBit_lane, testBit_of_lt32 h (by omega)]; simp [hb]
    by_cases hed : e = d <;> simp [hed, hb, h1, h2]

/-! ### packing a list of lane values -/

def pack : List Nat → Nat
  | [] => 0
  | v :: l => Nat.add v (Nat.mul 4294967296 (pack l))

theorem lane_zero (i : Nat) : lane 0 i = 0 := by
  rw [lane_eq]; simp

theorem lane_pack (l : List Nat) (hl : ∀ v ∈ l, v < 2 ^ 32) (i : Nat) : lane (pack l) i = l.getD i 0 := by
  induction l generalizing i with
  | nil => simp [pack, lane_zero]
  | cons v l ih =>
    have hv : v < 2 ^ 32 := hl v (by simp)
    have hp : pack (v :: l) = v + 2 ^ 32 * pack l := rfl
    rw [hp, lane_eq, Nat.shiftRight_eq_div_pow]
    cases i with
    | zero =>
      simp only [Nat.mul_zero, Nat.pow_zero, Nat.div_one, List.getD_cons_zero]
      rw [Nat.add_mul_mod_self_left]; exact Nat.mod_eq_of_lt hv
    | succ i =>
      have : 2 ^ (32 * (i + 1)) = 2 ^ 32 * 2 ^ (32 * i) := by rw [← Nat.pow_add]; congr 1; omega
      rw [this, ← Nat.div_div_eq_div_mul, Nat.add_mul_div_left _ _ (by decide : 0 < 2 ^ 32),
        Nat.div_eq_of_lt hv, Nat.zero_add, ← Nat.shiftRight_eq_div_pow, ← lane_eq,
        ih (fun v hv => hl v (by simp [hv]))]
      simp

/-! ### packed executor -/

def widx (k m : Nat) : Buf → Nat
  | .data i => i
  | .parity j => Nat.add k j
  | .tmp => Nat.add k m

def inR (k m : Nat) : Buf → Bool
  | .data i => Nat.blt i k
  | .parity j => Nat.blt j m
  | .tmp => true

def pget (k m s : Nat) (b : Buf) : Nat := bif inR k m b then lane s (widx k m b) else 0

/-- buffer b := v -/
def pset (k m s : Nat) (b : Buf) (v : Nat) : Nat :=
  bif inR k m b then xorLane s (widx k m b) (Nat.xor (lane s (widx k m b)) v) else s

def prunOp (k m s : Nat) : Op → Nat
  | .copy dst src => pset k m s dst (pget k m s src)
  | .xorInto src dst => bif inR k m dst then xorLane s (widx k m dst) (pget k m s src) else s
  | .zero dst => pset k m s dst 0

def prunOps (k m : Nat) (ops : List Op) (s : Nat) : Nat := ops.foldl (prunOp k m) s

/-! ### representation relation -/

structure Rep (k m s : Nat) (x : XState Nat) : Prop where
  dlen : x.data.length = k
  plen : x.parity.length = m
  getb : ∀ b, inR k m b = true → x.get 0 b = lane s (widx k m b)

theorem inR_data {k m i : Nat} : inR k m (.data i) = true ↔ i < k := by
  simp [inR, Nat.blt_eq]
theorem inR_parity {k m j : Nat} : inR k m (.parity j) = true ↔ j < m := by
  simp [inR, Nat.blt_eq]

theorem widx_inj {k m : Nat} {b b' : Buf} (h : inR k m b = true) (h' : inR k m b' = true)
    (e : widx k m b = widx k m b') : b = b' := by
  cases b with
  | data i =>
    cases b' with
    | data i' => exact congrArg Buf.data e
    | parity j' => have := inR_data.1 h; simp only [widx, Nat.add_eq] at e; omega
    | tmp => have := inR_data.1 h; simp only [widx, Nat.add_eq] at e; omega
  | parity j =>
    cases b' with
    | data i' => have := inR_data.1 h'; simp only [widx, Nat.add_eq] at e; omega
    | parity j' => simp only [widx, Nat.add_eq] at e; exact congrArg Buf.parity (by omega)
    | tmp => have := inR_parity.1 h; simp only [widx, Nat.add_eq] at e; omega
  | tmp =>
    cases b' with
    | data i' => have := inR_data.1 h'; simp only [widx, Nat.add_eq] at e; omega
    | parity j' => have := inR_parity.1 h'; simp only [widx, Nat.add_eq] at e; omega
    | tmp => rfl

theorem Rep.get_eq {k m s : Nat} {x : XState Nat} (r : Rep k m s x) (b : Buf) :
    x.get 0 b = pget k m s b := by
  unfold pget
  cases hb : inR k m b with
  | true => simpa using r.getb b hb
  | false =>
    simp only [cond_false]
    cases b with
    | data i =>
      have : ¬ i < k := fun h => by rw [inR_data.2 h] at hb; cases hb
      simp only [XState.get]; rw [getD_of_length_le]; rw [r.dlen]; omega
    | parity j =>
      have : ¬ j < m := fun h => by rw [inR_parity.2 h] at hb; cases hb
      simp only [XState.get]; rw [getD_of_length_le]; rw [r.plen]; omega
    | tmp => simp [inR] at hb

theorem pget_lt (k m s : Nat) (b : Buf) : pget k m s b < 2 ^ 32 := by
  unfold pget; cases inR k m b
  · exact (by decide : (0:Nat) < 2 ^ 32)
  · exact lane_lt _ _

theorem set_of_not_inR {k m s : Nat} {x : XState Nat} (r : Rep k m s x) {b : Buf}
    (hb : inR k m b = false) (v : Nat) : x.set b v = x := by
  cases b with
  | data i =>
    have : ¬ i < k := fun h => by rw [inR_data.2 h] at hb; cases hb
    simp only [XState.set]; rw [List.set_eq_of_length_le (by rw [r.dlen]; omega)]
  | parity j =>
    have : ¬ j < m := fun h => by rw [inR_parity.2 h] at hb; cases hb
    simp only [XState.set]; rw [List.set_eq_of_length_le (by rw [r.plen]; omega)]
  | tmp => simp [inR] at hb

theorem get_set_same {x : XState Nat} {k m s : Nat} (r : Rep k m s x) {b : Buf}
    (hb : inR k m b = true) (v : Nat) : (x.set b v).get 0 b = v := by
  cases b with
  | data i =>
    have := inR_data.1 hb
    simp only [XState.set, XState.get, getD_set']
    simp [r.dlen, this]
  | parity j =>
    have := inR_parity.1 hb
    simp only [XState.set, XState.get, getD_set']
    simp [r.plen, this]
  | tmp => rfl

theorem get_set_other {x : XState Nat} {b b' : Buf} (hne : b' ≠ b) (v : Nat) :
    (x.set b v).get 0 b' = x.get 0 b' := by
  cases b with
  | data i =>
    cases b' with
    | data i' =>
      simp only [XState.set, XState.get, getD_set']
      rw [if_neg]; rintro ⟨e, _⟩; exact hne (by rw [e])
    | parity j' => rfl
    | tmp => rfl
  | parity j =>
    cases b' with
    | data i' => rfl
    | parity j' =>
      simp only [XState.set, XState.get, getD_set']
      rw [if_neg]; rintro ⟨e, _⟩; exact hne (by rw [e])
    | tmp => rfl
  | tmp =>
    cases b' with
    | data i' => rfl
    | parity j' => rfl
    | tmp => exact absurd rfl hne

theorem rep_pset {k m s : Nat} {x : XState Nat} (r : Rep k m s x) (b : Buf) {v : Nat}
    (hv : v < 2 ^ 32) : Rep k m (pset k m s b v) (x.set b v) := by
  unfold pset
  cases hb : inR k m b with
  | false => simpa [set_of_not_inR r hb] using r
  | true =>
    simp only [cond_true]
    have hw : Nat.xor (lane s (widx k m b)) v < 2 ^ 32 := Nat.xor_lt_two_pow (lane_lt _ _) hv
    refine ⟨?_, ?_, ?_⟩
    · cases b <;> simp [XState.set, r.dlen]
    · cases b <;> simp [XState.set, r.plen]
    · intro b' hb'
      rw [lane_xorLane hw]
      by_cases hbb : b' = b
      · subst hbb
        rw [get_set_same r hb']
        simp only [if_true]
        show v = lane s (widx k m b') ^^^ (lane s (widx k m b') ^^^ v)
        rw [← Nat.xor_assoc, Nat.xor_self, Nat.zero_xor]
      · have : widx k m b' ≠ widx k m b := fun e => hbb (widx_inj hb' hb e)
        rw [get_set_other hbb, if_neg this]
        exact r.getb b' hb'

theorem rep_runOp {k m s : Nat} {x : XState Nat} (r : Rep k m s x) (op : Op) :
    Rep k m (prunOp k m s op) (runOp (· ^^^ ·) 0 x op) := by
  cases op with
  | copy dst src =>
    simp only [prunOp, runOp, r.get_eq]
    exact rep_pset r dst (pget_lt _ _ _ _)
  | zero dst =>
    simp only [prunOp, runOp]
    exact rep_pset r dst (by decide)
  | xorInto src dst =>
    simp only [prunOp, runOp, r.get_eq]
    have h := rep_pset r dst (v := pget k m s src ^^^ pget k m s dst)
      (Nat.xor_lt_two_pow (pget_lt _ _ _ _) (pget_lt _ _ _ _))
    have e : pset k m s dst (pget k m s src ^^^ pget k m s dst) =
        (bif inR k m dst then xorLane s (widx k m dst) (pget k m s src) else s) := by
      unfold pset
      cases hb : inR k m dst with
      | false => rfl
      | true =>
        simp only [cond_true]
        congr 1
        show lane s (widx k m dst) ^^^ (pget k m s src ^^^ pget k m s dst) = _
        have : pget k m s dst = lane s (widx k m dst) := by simp [pget, hb]
        rw [this, Nat.xor_comm (pget k m s src), ← Nat.xor_assoc, Nat.xor_self, Nat.zero_xor]
    rw [← e]; exact h

theorem rep_runOps {k m : Nat} (ops : List Op) {s : Nat} {x : XState Nat} (r : Rep k m s x) :
    Rep k m (prunOps k m ops s) (runOps (· ^^^ ·) 0 ops x) := by
  induction ops generalizing s x with
  | nil => exact r
  | cons op ops ih => exact ih (rep_runOp r op)

/-- two model states represented by the same packed state agree on data and parity. -/
theorem Rep.unique {k m s : Nat} {x y : XState Nat} (rx : Rep k m s x) (ry : Rep k m s y) :
    x.data = y.data ∧ x.parity = y.parity := by
  constructor
  · apply List.ext_getElem (by rw [rx.dlen, ry.dlen])
    intro i h1 h2
    have hi : inR k m (.data i) = true := inR_data.2 (by rw [← rx.dlen]; exact h1)
    have e1 := rx.getb _ hi
    have e2 := ry.getb _ hi
    simp only [XState.get, List.getD_eq_getElem?_getD, List.getElem?_eq_getElem h1,
      List.getElem?_eq_getElem h2, Option.getD_some] at e1 e2
    rw [e1, e2]
  · apply List.ext_getElem (by rw [rx.plen, ry.plen])
    intro i h1 h2
    have hi : inR k m (.parity i) = true := inR_parity.2 (by rw [← rx.plen]; exact h1)
    have e1 := rx.getb _ hi
    have e2 := ry.getb _ hi
    simp only [XState.get, List.getD_eq_getElem?_getD, List.getElem?_eq_getElem h1,
      List.getElem?_eq_getElem h2, Option.getD_some] at e1 e2
    rw [e1, e2]

/-! ### enumeration of ascending lists -/

/-- `f` holds on every ascending list of at most `c` elements of `[lo, n)`. -/
def allAsc : Nat → Nat → Nat → (List Nat → Bool) → Bool
  | 0, _, _, f => f []
  | c+1, lo, n, f =>
    f [] && (List.range (n - lo)).all fun d => allAsc c (lo+d+1) n (fun l => f ((lo+d) :: l))

theorem allAsc_sound {c lo n : Nat} {f : List Nat → Bool} (h : allAsc c lo n f = true) :
    ∀ E : List Nat, E.Pairwise (· < ·) → (∀ x ∈ E, lo ≤ x ∧ x < n) → E.length ≤ c → f E = true := by
  induction c generalizing lo f with
  | zero =>
    intro E _ _ hl
    have : E = [] := List.eq_nil_of_length_eq_zero (by omega)
    subst this; exact h
  | succ c ih =>
    simp only [allAsc, Bool.and_eq_true, List.all_eq_true, List.mem_range] at h
    intro E hp hb hl
    cases E with
    | nil => exact h.1
    | cons a l =>
      have ha := hb a (by simp)
      have h2 := h.2 (a - lo) (by omega)
      have e : lo + (a - lo) = a := by omega
      rw [e] at h2
      rw [List.pairwise_cons] at hp
      exact ih h2 l hp.2
        (fun x hx => ⟨by have := hp.1 x hx; omega, (hb x (by simp [hx])).2⟩) (by simpa using hl)

/-! ### initial and goal states -/

def bufOfK (k e : Nat) : Buf := bif Nat.blt e k then .data e else .parity (Nat.sub e k)

theorem bufOfK_eq (T : XorTable) (e : Nat) : bufOfK T.k e = T.bufOf e := by
  unfold bufOfK XorTable.bufOf
  by_cases h : e < T.k
  · have : Nat.blt e T.k = true := by rw [Nat.blt_eq]; exact h
    simp [h, this]
  · have : Nat.blt e T.k = false := by
      cases hb : Nat.blt e T.k with
      | false => rfl
      | true => rw [Nat.blt_eq] at hb; exact absurd hb h
    simp [h, this]

theorem widx_bufOf (T : XorTable) {e : Nat} (h : e < T.k + T.m) :
    inR T.k T.m (T.bufOf e) = true ∧ widx T.k T.m (T.bufOf e) = e := by
  unfold XorTable.bufOf
  by_cases hk : e < T.k
  · simp [hk, inR, widx, Nat.blt_eq]
  · simp only [hk, if_false, inR, widx, Nat.blt_eq, Nat.add_eq]; omega

/-- zero the lanes of the erased fragments. -/
def pzero (k m : Nat) (E : List Nat) (s : Nat) : Nat :=
  E.foldl (fun s e => pset k m s (bufOfK k e) 0) s

theorem rep_pzero (T : XorTable) (E : List Nat) {s : Nat} {x : XState Nat} (r : Rep T.k T.m s x) :
    Rep T.k T.m (pzero T.k T.m E s) (xorEraseBufs 0 T E x) := by
  induction E generalizing s x with
  | nil => exact r
  | cons e E ih =>
    simp only [pzero, xorEraseBufs, List.foldl_cons] at ih ⊢
    apply ih
    rw [bufOfK_eq]
    exact rep_pset r _ (by decide)

/-- packed symbolic stripe. -/
def goalP (T : XorTable) : Nat :=
  pack ((List.range T.k).map (fun i => 1 <<< i) ++ (List.range T.m).map T.pbm)

/-- everything fits a 32-bit lane. -/
def smallB (T : XorTable) : Bool :=
  Nat.ble T.k 32 && (List.range T.m).all fun j => Nat.blt (T.pbm j) 4294967296

theorem rep_goal (T : XorTable) (h : smallB T = true) : Rep T.k T.m (goalP T) T.symGoal := by
  simp only [smallB, Bool.and_eq_true, Nat.ble_eq, List.all_eq_true, List.mem_range, Nat.blt_eq] at h
  obtain ⟨hk, hp⟩ := h
  have hsmall : ∀ v ∈ (List.range T.k).map (fun i => 1 <<< i) ++ (List.range T.m).map T.pbm,
      v < 2 ^ 32 := by
    intro v hv
    simp only [List.mem_append, List.mem_map, List.mem_range] at hv
    rcases hv with ⟨i, hi, rfl⟩ | ⟨j, hj, rfl⟩
    · rw [Nat.one_shiftLeft]; exact Nat.pow_lt_pow_right (by decide) (by omega)
    · exact hp j hj
  refine ⟨by simp [XorTable.symGoal], by simp [XorTable.symGoal], ?_⟩
  intro b hb
  unfold goalP
  rw [lane_pack _ hsmall]
  simp only [List.getD_eq_getElem?_getD]
  cases b with
  | data i =>
    have hi := inR_data.1 hb
    simp only [XState.get, XorTable.symGoal, widx, List.getD_eq_getElem?_getD]
    rw [List.getElem?_append_left (by simpa using hi)]
  | parity j =>
    have hj := inR_parity.1 hb
    simp only [XState.get, XorTable.symGoal, widx, List.getD_eq_getElem?_getD, Nat.add_eq]
    rw [List.getElem?_append_right (by simp)]
    simp
  | tmp =>
    simp only [XState.get, XorTable.symGoal, widx, Nat.add_eq]
    rw [List.getElem?_eq_none (by simp)]
    rfl

/-! ### the checkers -/

/-- decode check for one erasure list: the model's plan exists and its packed symbolic run from
    the stripe with erased lanes zeroed ends in the stripe again (tmp ignored). -/
def okDecode (T : XorTable) (G : Nat) (E : List Nat) : Bool :=
  match T.planDecode E with
  | .ok ops => Nat.beq (pset T.k T.m (prunOps T.k T.m ops (pzero T.k T.m E G)) .tmp 0) G
  | .error _ => false

theorem okDecode_sound {T : XorTable} (hs : smallB T = true) {E : List Nat}
    (h : okDecode T (goalP T) E = true) :
    ∃ ops, T.planDecode E = .ok ops ∧
      (runOps (· ^^^ ·) 0 ops (xorEraseBufs 0 T E T.symGoal)).data = T.symGoal.data ∧
      (runOps (· ^^^ ·) 0 ops (xorEraseBufs 0 T E T.symGoal)).parity = T.symGoal.parity := by
  unfold okDecode at h
  split at h
  · next ops hp =>
    refine ⟨ops, hp, ?_⟩
    have r0 := rep_goal T hs
    have r3 := rep_pset (rep_runOps ops (rep_pzero T E r0)) .tmp (v := 0) (by decide)
    rw [Nat.eq_of_beq_eq_true h] at r3
    exact r3.unique r0
  · cases h

/-- the branch of `planReconOne` that does not fall back to `planDecode`. -/
def reconPlan (T : XorTable) (E : List Nat) (dest : Nat) : Option (List Op) :=
  let md := T.missingData E
  let mp := T.missingParity E
  if dest < T.k then
    match T.connectedParity dest (some mp) md with
    | some j => some (T.recoverOps dest (.parity j) (T.pbm j))
    | none => none
  else
    let j := dest - T.k
    if T.numMissingInParity j md == 0 then
      some (Op.zero (.parity j) ::
        ((List.range T.k).filter fun i => (T.pbm j).testBit i).map fun i => Op.xorInto (.data i) (.parity j))
    else none

theorem planReconOne_eq (T : XorTable) (E : List Nat) (dest : Nat) :
    T.planReconOne E dest =
      match reconPlan T E dest with
      | some ops => .ok ops
      | none => T.planDecode E := by
  unfold XorTable.planReconOne reconPlan
  simp only []
  split
  · split <;> simp_all
  · split <;> simp_all

/-- reconstruct check for one erasure list and destination (the fall-back to the full decode
    plan is covered by the decode check). -/
def okRecon (T : XorTable) (G : Nat) (E : List Nat) (dest : Nat) : Bool :=
  match reconPlan T E dest with
  | some ops => Nat.beq (lane (prunOps T.k T.m ops (pzero T.k T.m E G)) dest) (lane G dest)
  | none => true

theorem okRecon_sound {T : XorTable} (hs : smallB T = true) {E : List Nat} {dest : Nat}
    (hdest : dest < T.k + T.m)
    (hdec : ∃ ops, T.planDecode E = .ok ops ∧
      (runOps (· ^^^ ·) 0 ops (xorEraseBufs 0 T E T.symGoal)).data = T.symGoal.data ∧
      (runOps (· ^^^ ·) 0 ops (xorEraseBufs 0 T E T.symGoal)).parity = T.symGoal.parity)
    (h : okRecon T (goalP T) E dest = true) :
    ∃ ops, T.planReconOne E dest = .ok ops ∧
      (runOps (· ^^^ ·) 0 ops (xorEraseBufs 0 T E T.symGoal)).get 0 (T.bufOf dest)
        = T.symGoal.get 0 (T.bufOf dest) := by
  rw [planReconOne_eq]
  unfold okRecon at h
  split at h
  · next ops hp =>
    refine ⟨ops, rfl, ?_⟩
    have r0 := rep_goal T hs
    have r2 := rep_runOps ops (rep_pzero T E r0)
    obtain ⟨hin, hw⟩ := widx_bufOf T hdest
    rw [r2.getb _ hin, r0.getb _ hin, hw]
    exact Nat.eq_of_beq_eq_true h
  · next hp =>
    obtain ⟨ops, hpd, h1, h2⟩ := hdec
    refine ⟨ops, hpd, ?_⟩
    unfold XorTable.bufOf
    split <;> simp only [XState.get, h1, h2]

/-! ### chunks (all erasure lists with a given first index) and tables -/

def chunkDecode (T : XorTable) (a : Nat) : Bool :=
  allAsc (T.hd - 2) (a+1) (T.k + T.m) (fun l => okDecode T (goalP T) (a :: l))

def chunkRecon (T : XorTable) (a : Nat) : Bool :=
  allAsc (T.hd - 2) (a+1) (T.k + T.m) (fun l => (a :: l).all (okRecon T (goalP T) (a :: l)))

/-- lanes are wide enough, `hd ≥ 2`, and the empty erasure list decodes. -/
def baseOK (T : XorTable) : Bool :=
  smallB T && Nat.ble 2 T.hd && okDecode T (goalP T) []

def ChunksOK (f : Nat → Bool) (lo hi : Nat) : Prop := ∀ a, lo ≤ a → a < hi → f a = true

theorem chunksOK_of_all {f : Nat → Bool} {lo cnt hi : Nat} (e : lo + cnt = hi)
    (h : (List.range' lo cnt).all f = true) : ChunksOK f lo hi := by
  subst e
  intro a h1 h2
  rw [List.all_eq_true] at h
  apply h
  rw [List.mem_range'_1]
  exact ⟨h1, h2⟩

theorem ChunksOK.append {f : Nat → Bool} {lo mid hi : Nat} (h1 : ChunksOK f lo mid)
    (h2 : ChunksOK f mid hi) : ChunksOK f lo hi := by
  intro a ha hb
  by_cases h : a < mid
  · exact h1 a ha h
  · exact h2 a (by omega) hb

theorem decodeSym_of_checks {T : XorTable} (hb : baseOK T = true)
    (hc : ChunksOK (chunkDecode T) 0 (T.k + T.m)) : T.DecodeSym := by
  simp only [baseOK, Bool.and_eq_true, Nat.ble_eq] at hb
  obtain ⟨⟨hs, hhd⟩, h0⟩ := hb
  intro E hE
  cases E with
  | nil => exact okDecode_sound hs h0
  | cons a l =>
    have ha := hE.bound a (by simp)
    have hp := hE.asc
    rw [List.pairwise_cons] at hp
    have hl := hE.len
    simp only [List.length_cons] at hl
    apply okDecode_sound hs
    exact allAsc_sound (hc a (by omega) ha) l hp.2
      (fun x hx => ⟨by have := hp.1 x hx; omega, hE.bound x (by simp [hx])⟩) (by omega)

theorem decodeSym_of_checks' {T : XorTable} {n : Nat} (hn : T.k + T.m = n) (hb : baseOK T = true)
    (hc : ChunksOK (chunkDecode T) 0 n) : T.DecodeSym := by
  subst hn; exact decodeSym_of_checks hb hc

theorem reconSym_of_checks {T : XorTable} (hb : baseOK T = true) (hd : T.DecodeSym)
    (hc : ChunksOK (chunkRecon T) 0 (T.k + T.m)) : T.ReconSym := by
  simp only [baseOK, Bool.and_eq_true, Nat.ble_eq] at hb
  obtain ⟨⟨hs, hhd⟩, h0⟩ := hb
  intro E hE dest hdest
  cases E with
  | nil => simp at hdest
  | cons a l =>
    have ha := hE.bound a (by simp)
    have hp := hE.asc
    rw [List.pairwise_cons] at hp
    have hl := hE.len
    simp only [List.length_cons] at hl
    have hall := allAsc_sound (hc a (by omega) ha) l hp.2
      (fun x hx => ⟨by have := hp.1 x hx; omega, hE.bound x (by simp [hx])⟩) (by omega)
    rw [List.all_eq_true] at hall
    exact okRecon_sound hs (hE.bound dest hdest) (hd _ hE) (hall dest hdest)

theorem reconSym_of_checks' {T : XorTable} {n : Nat} (hn : T.k + T.m = n) (hb : baseOK T = true)
    (hd : T.DecodeSym) (hc : ChunksOK (chunkRecon T) 0 n) : T.ReconSym := by
  subst hn; exact reconSym_of_checks hb hd hc

/-! ### minimum distance -/

/-- column `c` of the parity-check matrix `[P | I_m]` as an m-bit vector. -/
def hcol (T : XorTable) (c : Nat) : Nat := if c < T.k then T.dbm c else 1 <<< (c - T.k)

def colsXor (T : XorTable) (S : List Nat) : Nat := S.foldl (fun a c => a ^^^ hcol T c) 0

def minDistB (T : XorTable) : Bool :=
  allAsc (T.hd - 1) 0 (T.k + T.m) (fun S => S.isEmpty || colsXor T S != 0)

/-- no non-empty set of fewer than `hd` columns of `[P | I_m]` xors to zero. -/
def MinDist (T : XorTable) : Prop :=
  ∀ S : List Nat, S.Pairwise (· < ·) → (∀ c ∈ S, c < T.k + T.m) → S ≠ [] → S.length < T.hd →
    colsXor T S ≠ 0

theorem minDist_of_check {T : XorTable} (h : minDistB T = true) : MinDist T := by
  intro S hp hb hne hl
  have := allAsc_sound h S hp (fun x hx => ⟨Nat.zero_le _, hb x hx⟩) (by omega)
  cases S with
  | nil => exact absurd rfl hne
  | cons a l => simpa using this

/-! ### well-formedness of a table -/

def wfB (T : XorTable) : Bool :=
  T.parityBms.length == T.m && T.dataBms.length == T.k &&
  T.parityBms.all (fun x => Nat.blt x (2 ^ T.k)) && T.dataBms.all (fun x => Nat.blt x (2 ^ T.m)) &&
  (List.range T.k).all fun i => (List.range T.m).all fun j => (T.pbm j).testBit i == (T.dbm i).testBit j

/-- the two sides of a table have the right sizes and ranges and describe the same
    bipartite data/parity graph. -/
structure WF (T : XorTable) : Prop where
  plen : T.parityBms.length = T.m
  dlen : T.dataBms.length = T.k
  prange : ∀ x ∈ T.parityBms, x < 2 ^ T.k
  drange : ∀ x ∈ T.dataBms, x < 2 ^ T.m
  graph : ∀ i j, i < T.k → j < T.m → (T.pbm j).testBit i = (T.dbm i).testBit j

theorem wf_of_check {T : XorTable} (h : wfB T = true) : WF T := by
  simp only [wfB, Bool.and_eq_true, beq_iff_eq, List.all_eq_true, Nat.blt_eq, List.mem_range] at h
  obtain ⟨⟨⟨⟨h1, h2⟩, h3⟩, h4⟩, h5⟩ := h
  exact ⟨h1, h2, h3, h4, fun i j hi hj => h5 i hi j hj⟩

end XorCheck
end Lec

#print axioms Lec.XorCheck.rep_runOps
#print axioms Lec.XorCheck.decodeSym_of_checks
#print axioms Lec.XorCheck.reconSym_of_checks
#print axioms Lec.XorCheck.minDist_of_check
#print axioms Lec.XorCheck.wf_of_check
