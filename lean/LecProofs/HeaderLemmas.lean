/-
  LecProofs.HeaderLemmas — the setter sequence of `add_fragment_metadata` on a fresh
  fragment buffer produces exactly the specification serializer's bytes.
-/
import LecModel.Frontend
import LecProofs.BytesLemmas
namespace Lec

/-- overwrite the `j`-th segment of a segmented buffer. -/
theorem wrBytes_flatten_set (segs : List Bytes) (j off : Nat) (new : Bytes) (hj : j < segs.length)
    (hoff : (segs.take j).flatten.length = off) (hl : new.length = (segs[j]).length) :
    wrBytes segs.flatten off new = (segs.set j new).flatten := by
  have hs : segs = segs.take j ++ [segs[j]] ++ segs.drop (j + 1) := by
    rw [List.append_assoc, List.singleton_append, List.getElem_cons_drop_succ_eq_drop hj,
      List.take_append_drop]
  have hs' : segs.set j new = segs.take j ++ [new] ++ segs.drop (j + 1) := by
    rw [List.set_eq_take_append_cons_drop, if_pos hj]; simp
  rw [hs']
  conv => lhs; rw [hs]
  simp only [List.flatten_append, List.flatten_cons, List.flatten_nil, List.append_nil]
  exact wrBytes_mid hoff hl

/-- the 14 segments of a fragment buffer: idx, size, bmSize, orig, ctype, chk0, chk1..7, mismatch,
    beId, beVer, magic, libver, metaCrc, pad — then the payload. -/
def segsOf (a0 a1 a2 a3 a4 a5 a6 a7 a8 a9 a10 a11 a12 a13 p : Bytes) : List Bytes :=
  [a0, a1, a2, a3, a4, a5, a6, a7, a8, a9, a10, a11, a12, a13, p]

/-- segment-length well-formedness. -/
structure SegLens (a0 a1 a2 a3 a4 a5 a6 a7 a8 a9 a10 a11 a12 a13 : Bytes) : Prop where
  h0 : a0.length = 4
  h1 : a1.length = 4
  h2 : a2.length = 4
  h3 : a3.length = 8
  h4 : a4.length = 1
  h5 : a5.length = 4
  h6 : a6.length = 28
  h7 : a7.length = 1
  h8 : a8.length = 1
  h9 : a9.length = 4
  h10 : a10.length = 4
  h11 : a11.length = 4
  h12 : a12.length = 4
  h13 : a13.length = 9

theorem zeros_add (a b : Nat) : zeros (a + b) = zeros a ++ zeros b := by
  simp [zeros, List.replicate_append_replicate]

theorem freshFragment_segs (n : Nat) :
    freshFragment n = (segsOf (zeros 4) (zeros 4) (zeros 4) (zeros 8) (zeros 1) (zeros 4) (zeros 28)
      (zeros 1) (zeros 1) (zeros 4) (le32 magicC) (zeros 4) (zeros 4) (zeros 9) (zeros n)).flatten := by
  unfold freshFragment setMagic
  have h : zeros (Hdr.size + n) = (segsOf (zeros 4) (zeros 4) (zeros 4) (zeros 8) (zeros 1) (zeros 4) (zeros 28)
      (zeros 1) (zeros 1) (zeros 4) (zeros 4) (zeros 4) (zeros 4) (zeros 9) (zeros n)).flatten := by
    simp only [segsOf, zeros, Hdr.size, List.flatten_cons, List.flatten_nil, List.append_nil,
      List.replicate_append_replicate]
    congr 1; omega
  rw [h]
  rw [wrBytes_flatten_set _ 10 _ _ (by simp [segsOf]) (by simp [segsOf, Hdr.offMagic]) (by simp [segsOf])]
  simp [segsOf]

end Lec

namespace Lec
section setters
variable {a0 a1 a2 a3 a4 a5 a6 a7 a8 a9 a10 a11 a12 a13 p : Bytes}

local macro "seg_set" j:num " using " L:ident " with " d:ident : tactic =>
  `(tactic| (
    unfold $d
    rw [wrBytes_flatten_set _ $j _ _ (by simp [segsOf])
      (by simp [segsOf, Hdr.offIdx, Hdr.offSize, Hdr.offBmSize, Hdr.offOrig, Hdr.offCtype, Hdr.offChksum,
            Hdr.offMismatch, Hdr.offBeId, Hdr.offBeVer, Hdr.offMagic, Hdr.offLibver, Hdr.offMetaCrc,
            ($L).h0, ($L).h1, ($L).h2, ($L).h3, ($L).h4, ($L).h5, ($L).h6, ($L).h7, ($L).h8, ($L).h9,
            ($L).h10, ($L).h11, ($L).h12])
      (by simp [segsOf, ($L).h0, ($L).h1, ($L).h2, ($L).h3, ($L).h4, ($L).h5, ($L).h6, ($L).h7, ($L).h8,
            ($L).h9, ($L).h10, ($L).h11, ($L).h12])]
    simp [segsOf]))

theorem setIdx_segs (L : SegLens a0 a1 a2 a3 a4 a5 a6 a7 a8 a9 a10 a11 a12 a13) (v : Nat) :
    setIdx (segsOf a0 a1 a2 a3 a4 a5 a6 a7 a8 a9 a10 a11 a12 a13 p).flatten v =
      (segsOf (le32 v) a1 a2 a3 a4 a5 a6 a7 a8 a9 a10 a11 a12 a13 p).flatten := by
  seg_set 0 using L with setIdx

theorem setSize_segs (L : SegLens a0 a1 a2 a3 a4 a5 a6 a7 a8 a9 a10 a11 a12 a13) (v : Nat) :
    setSize (segsOf a0 a1 a2 a3 a4 a5 a6 a7 a8 a9 a10 a11 a12 a13 p).flatten v =
      (segsOf a0 (le32 v) a2 a3 a4 a5 a6 a7 a8 a9 a10 a11 a12 a13 p).flatten := by
  seg_set 1 using L with setSize

theorem setBmSize_segs (L : SegLens a0 a1 a2 a3 a4 a5 a6 a7 a8 a9 a10 a11 a12 a13) (v : Nat) :
    setBmSize (segsOf a0 a1 a2 a3 a4 a5 a6 a7 a8 a9 a10 a11 a12 a13 p).flatten v =
      (segsOf a0 a1 (le32 v) a3 a4 a5 a6 a7 a8 a9 a10 a11 a12 a13 p).flatten := by
  seg_set 2 using L with setBmSize

theorem setOrig_segs (L : SegLens a0 a1 a2 a3 a4 a5 a6 a7 a8 a9 a10 a11 a12 a13) (v : Nat) :
    setOrig (segsOf a0 a1 a2 a3 a4 a5 a6 a7 a8 a9 a10 a11 a12 a13 p).flatten v =
      (segsOf a0 a1 a2 (le64 v) a4 a5 a6 a7 a8 a9 a10 a11 a12 a13 p).flatten := by
  seg_set 3 using L with setOrig

theorem setCtype_segs (L : SegLens a0 a1 a2 a3 a4 a5 a6 a7 a8 a9 a10 a11 a12 a13) (v : Nat) :
    setCtype (segsOf a0 a1 a2 a3 a4 a5 a6 a7 a8 a9 a10 a11 a12 a13 p).flatten v =
      (segsOf a0 a1 a2 a3 [UInt8.ofNat v] a5 a6 a7 a8 a9 a10 a11 a12 a13 p).flatten := by
  seg_set 4 using L with setCtype

theorem setChk0_segs (L : SegLens a0 a1 a2 a3 a4 a5 a6 a7 a8 a9 a10 a11 a12 a13) (v : Nat) :
    setChk0 (segsOf a0 a1 a2 a3 a4 a5 a6 a7 a8 a9 a10 a11 a12 a13 p).flatten v =
      (segsOf a0 a1 a2 a3 a4 (le32 v) a6 a7 a8 a9 a10 a11 a12 a13 p).flatten := by
  seg_set 5 using L with setChk0

theorem setMismatch_segs (L : SegLens a0 a1 a2 a3 a4 a5 a6 a7 a8 a9 a10 a11 a12 a13) (v : Nat) :
    setMismatch (segsOf a0 a1 a2 a3 a4 a5 a6 a7 a8 a9 a10 a11 a12 a13 p).flatten v =
      (segsOf a0 a1 a2 a3 a4 a5 a6 [UInt8.ofNat v] a8 a9 a10 a11 a12 a13 p).flatten := by
  seg_set 7 using L with setMismatch

theorem setBeId_segs (L : SegLens a0 a1 a2 a3 a4 a5 a6 a7 a8 a9 a10 a11 a12 a13) (v : Nat) :
    setBeId (segsOf a0 a1 a2 a3 a4 a5 a6 a7 a8 a9 a10 a11 a12 a13 p).flatten v =
      (segsOf a0 a1 a2 a3 a4 a5 a6 a7 [UInt8.ofNat v] a9 a10 a11 a12 a13 p).flatten := by
  seg_set 8 using L with setBeId

theorem setBeVer_segs (L : SegLens a0 a1 a2 a3 a4 a5 a6 a7 a8 a9 a10 a11 a12 a13) (v : Nat) :
    setBeVer (segsOf a0 a1 a2 a3 a4 a5 a6 a7 a8 a9 a10 a11 a12 a13 p).flatten v =
      (segsOf a0 a1 a2 a3 a4 a5 a6 a7 a8 (le32 v) a10 a11 a12 a13 p).flatten := by
  seg_set 9 using L with setBeVer

theorem setMagic_segs (L : SegLens a0 a1 a2 a3 a4 a5 a6 a7 a8 a9 a10 a11 a12 a13) (v : Nat) :
    setMagic (segsOf a0 a1 a2 a3 a4 a5 a6 a7 a8 a9 a10 a11 a12 a13 p).flatten v =
      (segsOf a0 a1 a2 a3 a4 a5 a6 a7 a8 a9 (le32 v) a11 a12 a13 p).flatten := by
  seg_set 10 using L with setMagic

theorem setLibver_segs (L : SegLens a0 a1 a2 a3 a4 a5 a6 a7 a8 a9 a10 a11 a12 a13) (v : Nat) :
    setLibver (segsOf a0 a1 a2 a3 a4 a5 a6 a7 a8 a9 a10 a11 a12 a13 p).flatten v =
      (segsOf a0 a1 a2 a3 a4 a5 a6 a7 a8 a9 a10 (le32 v) a12 a13 p).flatten := by
  seg_set 11 using L with setLibver

theorem setMetaCrc_segs (L : SegLens a0 a1 a2 a3 a4 a5 a6 a7 a8 a9 a10 a11 a12 a13) (v : Nat) :
    setMetaCrc (segsOf a0 a1 a2 a3 a4 a5 a6 a7 a8 a9 a10 a11 a12 a13 p).flatten v =
      (segsOf a0 a1 a2 a3 a4 a5 a6 a7 a8 a9 a10 a11 (le32 v) a13 p).flatten := by
  seg_set 12 using L with setMetaCrc

theorem fPayload_segs (L : SegLens a0 a1 a2 a3 a4 a5 a6 a7 a8 a9 a10 a11 a12 a13) :
    fPayload (segsOf a0 a1 a2 a3 a4 a5 a6 a7 a8 a9 a10 a11 a12 a13 p).flatten = p := by
  unfold fPayload
  have h : (segsOf a0 a1 a2 a3 a4 a5 a6 a7 a8 a9 a10 a11 a12 a13 p).flatten =
      (a0 ++ a1 ++ a2 ++ a3 ++ a4 ++ a5 ++ a6 ++ a7 ++ a8 ++ a9 ++ a10 ++ a11 ++ a12 ++ a13) ++ p := by
    simp [segsOf]
  rw [h, List.drop_append_of_le_length (by simp [Hdr.size, L.h0, L.h1, L.h2, L.h3, L.h4, L.h5, L.h6, L.h7, L.h8, L.h9, L.h10, L.h11, L.h12, L.h13])]
  rw [List.drop_of_length_le (by simp [Hdr.size, L.h0, L.h1, L.h2, L.h3, L.h4, L.h5, L.h6, L.h7, L.h8, L.h9, L.h10, L.h11, L.h12, L.h13])]
  simp

theorem fMetaBytes_segs (L : SegLens a0 a1 a2 a3 a4 a5 a6 a7 a8 a9 a10 a11 a12 a13) :
    fMetaBytes (segsOf a0 a1 a2 a3 a4 a5 a6 a7 a8 a9 a10 a11 a12 a13 p).flatten =
      a0 ++ a1 ++ a2 ++ a3 ++ a4 ++ a5 ++ a6 ++ a7 ++ a8 ++ a9 := by
  unfold fMetaBytes
  have h : (segsOf a0 a1 a2 a3 a4 a5 a6 a7 a8 a9 a10 a11 a12 a13 p).flatten =
      (a0 ++ a1 ++ a2 ++ a3 ++ a4 ++ a5 ++ a6 ++ a7 ++ a8 ++ a9) ++ (a10 ++ a11 ++ a12 ++ a13 ++ p) := by
    simp [segsOf]
  rw [h, List.take_append_of_le_length (by simp [Hdr.metaSize, L.h0, L.h1, L.h2, L.h3, L.h4, L.h5, L.h6, L.h7, L.h8, L.h9])]
  exact List.take_of_length_le (by simp [Hdr.metaSize, L.h0, L.h1, L.h2, L.h3, L.h4, L.h5, L.h6, L.h7, L.h8, L.h9])

end setters
end Lec

namespace Lec

theorem fragmentWithPayload_segs (p : Bytes) :
    fragmentWithPayload p = (segsOf (zeros 4) (zeros 4) (zeros 4) (zeros 8) (zeros 1) (zeros 4) (zeros 28)
      (zeros 1) (zeros 1) (zeros 4) (le32 magicC) (zeros 4) (zeros 4) (zeros 9) p).flatten := by
  unfold fragmentWithPayload
  rw [freshFragment_segs]
  rw [wrBytes_flatten_set _ 14 _ _ (by simp [segsOf]) (by simp [segsOf, Hdr.size]) (by simp [segsOf])]
  simp [segsOf]

/-- the logical metadata `add_fragment_metadata` is meant to store. -/
def specMeta (env : Env) (i : Inst) (idx orig bs : Nat) (p : Bytes) : Meta :=
  { idx := idx, size := bs, bmSize := 0, origSize := orig, ctype := i.ct,
    chksum := (if i.ct % 256 == 2 then crcWrite env.legacy p else 0) :: List.replicate 7 0,
    mismatch := 0, beId := i.beId, beVer := i.beVer }

def specHeader (env : Env) (i : Inst) (idx orig bs : Nat) (p : Bytes) : Header :=
  { md := specMeta env i idx orig bs p, magic := magicC, libver := env.libver,
    metaCrc := crcWrite env.legacy (specMeta env i idx orig bs p).bytes }

theorem le32_zero : le32 0 = zeros 4 := by decide

theorem toI32_toNat_of_lt {n : Nat} (h : n < 2 ^ 31) : (toI32 n).toNat = n := by
  unfold toI32
  have h1 : n % 2 ^ 32 = n := Nat.mod_eq_of_lt (by omega)
  simp only [h1, if_pos h]
  simp

/-- **Wire format of a freshly encoded fragment**: the setter sequence of
    `add_fragment_metadata` (with checksum) applied to a fresh buffer holding payload `p`
    yields the specification serializer's 80 bytes followed by `p`. -/
theorem addFragmentMetadata_spec (env : Env) (i : Inst) (idx orig bs : Nat) (p : Bytes)
    (hp : p.length = bs) (ho : orig < 2 ^ 31) :
    addFragmentMetadata env i (fragmentWithPayload p) idx orig bs true =
      (specHeader env i idx orig bs p).bytes ++ p := by
  have L0 : SegLens (zeros 4) (zeros 4) (zeros 4) (zeros 8) (zeros 1) (zeros 4) (zeros 28)
      (zeros 1) (zeros 1) (zeros 4) (le32 magicC) (zeros 4) (zeros 4) (zeros 9) := by
    constructor <;> simp
  unfold addFragmentMetadata
  rw [fragmentWithPayload_segs, toI32_toNat_of_lt ho]
  simp only [if_true]
  rw [setLibver_segs L0]
  have L1 : SegLens (zeros 4) (zeros 4) (zeros 4) (zeros 8) (zeros 1) (zeros 4) (zeros 28)
      (zeros 1) (zeros 1) (zeros 4) (le32 magicC) (le32 env.libver) (zeros 4) (zeros 9) := by
    constructor <;> simp
  rw [setIdx_segs L1]
  have L2 : SegLens (le32 idx) (zeros 4) (zeros 4) (zeros 8) (zeros 1) (zeros 4) (zeros 28)
      (zeros 1) (zeros 1) (zeros 4) (le32 magicC) (le32 env.libver) (zeros 4) (zeros 9) := by
    constructor <;> simp
  rw [setOrig_segs L2]
  have L3 : SegLens (le32 idx) (zeros 4) (zeros 4) (le64 orig) (zeros 1) (zeros 4) (zeros 28)
      (zeros 1) (zeros 1) (zeros 4) (le32 magicC) (le32 env.libver) (zeros 4) (zeros 9) := by
    constructor <;> simp
  rw [setSize_segs L3]
  have L4 : SegLens (le32 idx) (le32 bs) (zeros 4) (le64 orig) (zeros 1) (zeros 4) (zeros 28)
      (zeros 1) (zeros 1) (zeros 4) (le32 magicC) (le32 env.libver) (zeros 4) (zeros 9) := by
    constructor <;> simp
  rw [setBeId_segs L4]
  have L5 : SegLens (le32 idx) (le32 bs) (zeros 4) (le64 orig) (zeros 1) (zeros 4) (zeros 28)
      (zeros 1) [UInt8.ofNat i.beId] (zeros 4) (le32 magicC) (le32 env.libver) (zeros 4) (zeros 9) := by
    constructor <;> simp
  rw [setBeVer_segs L5]
  have L6 : SegLens (le32 idx) (le32 bs) (zeros 4) (le64 orig) (zeros 1) (zeros 4) (zeros 28)
      (zeros 1) [UInt8.ofNat i.beId] (le32 i.beVer) (le32 magicC) (le32 env.libver) (zeros 4) (zeros 9) := by
    constructor <;> simp
  rw [setBmSize_segs L6]
  have L7 : SegLens (le32 idx) (le32 bs) (le32 0) (le64 orig) (zeros 1) (zeros 4) (zeros 28)
      (zeros 1) [UInt8.ofNat i.beId] (le32 i.beVer) (le32 magicC) (le32 env.libver) (zeros 4) (zeros 9) := by
    constructor <;> simp
  unfold setChecksum
  rw [setCtype_segs L7]
  have L8 : SegLens (le32 idx) (le32 bs) (le32 0) (le64 orig) [UInt8.ofNat i.ct] (zeros 4) (zeros 28)
      (zeros 1) [UInt8.ofNat i.beId] (le32 i.beVer) (le32 magicC) (le32 env.libver) (zeros 4) (zeros 9) := by
    constructor <;> simp
  rw [setMismatch_segs L8]
  have L9 : SegLens (le32 idx) (le32 bs) (le32 0) (le64 orig) [UInt8.ofNat i.ct] (zeros 4) (zeros 28)
      [UInt8.ofNat 0] [UInt8.ofNat i.beId] (le32 i.beVer) (le32 magicC) (le32 env.libver) (zeros 4) (zeros 9) := by
    constructor <;> simp
  dsimp only
  rw [fPayload_segs L9]
  have hpt : List.take bs p = p := List.take_of_length_le (by omega)
  rw [hpt]
  by_cases hct : (i.ct % 256 == 2) = true
  · simp only [hct, if_true]
    rw [setChk0_segs L9]
    have L10 : SegLens (le32 idx) (le32 bs) (le32 0) (le64 orig) [UInt8.ofNat i.ct]
        (le32 (crcWrite env.legacy p)) (zeros 28)
        [UInt8.ofNat 0] [UInt8.ofNat i.beId] (le32 i.beVer) (le32 magicC) (le32 env.libver) (zeros 4) (zeros 9) := by
      constructor <;> simp
    rw [fMetaBytes_segs L10, setMetaCrc_segs L10]
    simp [segsOf, specHeader, specMeta, Header.bytes, Meta.bytes, hct, Hdr.padLen, le32_zero, zeros]
  · simp only [hct, Bool.false_eq_true, if_false]
    rw [fMetaBytes_segs L9, setMetaCrc_segs L9]
    simp [segsOf, specHeader, specMeta, Header.bytes, Meta.bytes, hct, Hdr.padLen, le32_zero, zeros]

end Lec
