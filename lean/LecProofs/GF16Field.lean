/-
  LecProofs.GF16Field — the model's GF(2^16) arithmetic (`Lec.xtime`, `Lec.gmul`,
  `Lec.gpow`, `Lec.ginv` on naturals below 2^16) is a field.

  * `Lec.GFEnc.enc : ℕ → AdjoinRoot (X^16+X^12+X^3+X+1 : (ZMod 2)[X])` turns xor into
    `+` and `gmul` into `*` and is injective below 2^16, hence `CommRing GF16`.
  * `2` has multiplicative order 65535 (five binary exponentiations in the kernel),
    so by pigeonhole every non-zero element is a unit: `Field GF16`.
  * bridge lemmas on naturals (`gmul_comm`, `gmul_assoc`, `gmul_ginv`, `gpow_eq`, …).
-/
import LecModel.GF16
import Mathlib.RingTheory.AdjoinRoot
import Mathlib.Algebra.CharP.Two
import Mathlib.Data.ZMod.Basic
import Mathlib.RingTheory.Polynomial.Basic
import Mathlib.Algebra.Polynomial.Degree.Lemmas
import Mathlib.GroupTheory.OrderOfElement
import Mathlib.Algebra.Field.Defs
import Mathlib.Data.Fintype.Card
import Mathlib.GroupTheory.SpecificGroups.Cyclic
import Mathlib.Algebra.GroupWithZero.Units.Fintype
import Mathlib.Tactic.NormNum.Prime
open Polynomial

namespace Lec

/-! ### encoding into `(ZMod 2)[X] / P` -/
namespace GFEnc

noncomputable def P : (ZMod 2)[X] := X^16 + X^12 + X^3 + X + 1

noncomputable def encP (w n : Nat) : (ZMod 2)[X] :=
  ∑ i ∈ Finset.range w, if n.testBit i then X^i else 0

theorem encP_xor (w a b : Nat) : encP w (a ^^^ b) = encP w a + encP w b := by
  unfold encP
  rw [← Finset.sum_add_distrib]
  apply Finset.sum_congr rfl
  intro i _
  rw [Nat.testBit_xor]
  cases a.testBit i <;> cases b.testBit i <;> simp
  exact (CharTwo.add_self_eq_zero _).symm

theorem encP_poly : encP 17 gfPoly = P := by
  simp [gfPoly, encP, Finset.sum_range_succ, P, Nat.testBit, Nat.shiftRight_eq_div_pow]
  ring

theorem encP_succ_of_lt {w a : Nat} (h : a < 2^w) : encP (w+1) a = encP w a := by
  unfold encP
  rw [Finset.sum_range_succ]
  have : a.testBit w = false := Nat.testBit_lt_two_pow h
  simp [this]

theorem encP_shift (w a : Nat) : encP (w+1) (a <<< 1) = X * encP w a := by
  unfold encP
  rw [Finset.sum_range_succ', Finset.mul_sum]
  simp [Nat.testBit_shiftLeft, pow_succ, mul_comm]

theorem encP_zero (w : Nat) : encP w 0 = 0 := by simp [encP]

abbrev R := AdjoinRoot P
noncomputable def enc (n : Nat) : R := AdjoinRoot.mk P (encP 16 n)

theorem xtime_lt {a : Nat} (h : a < 2^16) : xtime a < 2^16 := by
  unfold xtime
  split
  · rename_i hb
    apply Nat.lt_pow_two_of_testBit
    intro i hi
    rw [Nat.testBit_xor, Nat.testBit_shiftLeft]
    rcases Nat.lt_or_ge 16 i with h2 | h2
    · have : gfPoly.testBit i = false :=
        Nat.testBit_lt_two_pow (lt_of_lt_of_le (by norm_num [gfPoly])
          (Nat.pow_le_pow_right (by norm_num) (show 17 ≤ i by omega)))
      have h3 : a.testBit (i-1) = false :=
        Nat.testBit_lt_two_pow (lt_of_lt_of_le h (Nat.pow_le_pow_right (by norm_num) (by omega)))
      simp [this, h3]
    · have : i = 16 := by omega
      subst this
      simp [hb]
      decide
  · rename_i hb
    apply Nat.lt_pow_two_of_testBit
    intro i hi
    rw [Nat.testBit_shiftLeft]
    rcases Nat.lt_or_ge 16 i with h2 | h2
    · have h3 : a.testBit (i-1) = false :=
        Nat.testBit_lt_two_pow (lt_of_lt_of_le h (Nat.pow_le_pow_right (by norm_num) (by omega)))
      simp [h3]
    · have : i = 16 := by omega
      subst this
      simpa using hb

theorem enc_xtime {a : Nat} (h : a < 2^16) : enc (xtime a) = AdjoinRoot.root P * enc a := by
  have hx := xtime_lt h
  unfold enc
  rw [← encP_succ_of_lt hx]
  unfold xtime
  split
  · rw [encP_xor, encP_shift, encP_poly, map_add, AdjoinRoot.mk_self, add_zero, map_mul,
      AdjoinRoot.mk_X]
  · rw [encP_shift, map_mul, AdjoinRoot.mk_X]

theorem encP_succ' (w b : Nat) :
    encP (w+1) b = (if b.testBit 0 then (1 : (ZMod 2)[X]) else 0) + X * encP w (b >>> 1) := by
  unfold encP
  rw [Finset.sum_range_succ', Finset.mul_sum, add_comm]
  congr 1
  · apply Finset.sum_congr rfl
    intro i _
    rw [Nat.testBit_shiftRight, add_comm 1 i]
    split <;> simp [pow_succ, mul_comm]

theorem xor_lt16 {a b : Nat} (ha : a < 2^16) (hb : b < 2^16) : a ^^^ b < 2^16 :=
  Nat.xor_lt_two_pow ha hb

theorem gmulLoop_spec : ∀ (fuel a b acc : Nat), a < 2^16 → acc < 2^16 → b < 2^fuel →
    gmulLoop fuel a b acc < 2^16 ∧
    enc (gmulLoop fuel a b acc) = enc acc + enc a * AdjoinRoot.mk P (encP fuel b) := by
  intro fuel
  induction fuel with
  | zero =>
    intro a b acc ha hacc hb
    simp [gmulLoop, encP]
    simpa using hacc
  | succ n ih =>
    intro a b acc ha hacc hb
    unfold gmulLoop
    have hb' : b >>> 1 < 2^n := by
      rw [Nat.shiftRight_eq_div_pow]; omega
    have hacc' : (if b.testBit 0 then acc ^^^ a else acc) < 2^16 := by
      split
      · exact xor_lt16 hacc ha
      · exact hacc
    obtain ⟨h1, h2⟩ := ih (xtime a) (b >>> 1) _ (xtime_lt ha) hacc' hb'
    refine ⟨h1, ?_⟩
    rw [h2, enc_xtime ha, encP_succ', map_add, map_mul, AdjoinRoot.mk_X]
    split
    · simp only [enc, encP_xor, map_add, map_one]; ring
    · simp only [map_zero]; ring

theorem gmul_lt {a b : Nat} (ha : a < 2^16) (hb : b < 2^16) : gmul a b < 2^16 :=
  (gmulLoop_spec 16 a b 0 ha (by norm_num) hb).1

theorem enc_gmul {a b : Nat} (ha : a < 2^16) (hb : b < 2^16) :
    enc (gmul a b) = enc a * enc b := by
  have := (gmulLoop_spec 16 a b 0 ha (by norm_num) hb).2
  simpa [enc, encP_zero, gmul] using this

theorem encP_coeff (w n i : Nat) :
    (encP w n).coeff i = if i < w ∧ n.testBit i then 1 else 0 := by
  unfold encP
  rw [Polynomial.finsetSum_coeff]
  simp only [apply_ite (fun p : (ZMod 2)[X] => p.coeff i), coeff_X_pow, coeff_zero]
  by_cases h : i < w ∧ n.testBit i
  · rw [if_pos h, Finset.sum_eq_single i]
    · simp [h.2]
    · intro b _ hb; simp [Ne.symm hb]
    · intro hi; exact absurd (Finset.mem_range.mpr h.1) hi
  · rw [if_neg h]
    apply Finset.sum_eq_zero
    intro b hb
    by_cases hbi : i = b
    · subst hbi
      have : ¬ n.testBit i := fun ht => h ⟨Finset.mem_range.mp hb, ht⟩
      simp [this]
    · simp [hbi]

theorem degree_encP_lt (w n : Nat) : (encP w n).degree < w := by
  rw [Polynomial.degree_lt_iff_coeff_zero]
  intro m hm
  rw [encP_coeff]
  simp; omega

theorem P_monic : P.Monic := by
  unfold P; monicity!

theorem P_degree : P.degree = 16 := by
  unfold P; compute_degree!

theorem enc_eq_zero {c : Nat} (hc : c < 2^16) (h : enc c = 0) : c = 0 := by
  unfold enc at h
  rw [AdjoinRoot.mk_eq_zero] at h
  have h0 : encP 16 c = 0 := by
    by_contra hne
    refine P_monic.not_dvd_of_degree_lt hne ?_ h
    rw [P_degree]
    exact_mod_cast degree_encP_lt 16 c
  apply Nat.eq_of_testBit_eq
  intro i
  rw [Nat.zero_testBit]
  by_cases hi : i < 16
  · have := congrArg (fun p => p.coeff i) h0
    simp only [encP_coeff, coeff_zero] at this
    by_contra hne
    simp [hi] at this
    exact hne (by simpa using this)
  · exact Nat.testBit_lt_two_pow
      (lt_of_lt_of_le hc (Nat.pow_le_pow_right (by norm_num) (by omega)))

theorem enc_inj {a b : Nat} (ha : a < 2^16) (hb : b < 2^16) (h : enc a = enc b) : a = b := by
  have : enc (a ^^^ b) = 0 := by
    unfold enc at *
    rw [encP_xor, map_add, h, ← map_add, CharTwo.add_self_eq_zero, map_zero]
  have h0 := enc_eq_zero (xor_lt16 ha hb) this
  have h1 : b = (a ^^^ b) ^^^ a := by
    rw [Nat.xor_comm a b, Nat.xor_assoc, Nat.xor_self, Nat.xor_zero]
  rw [h1, h0, Nat.zero_xor]

end GFEnc

open GFEnc

/-! ### the type `GF16` -/

/-- elements of GF(2^16): naturals below 2^16; `+` is xor, `*` is `Lec.gmul`. -/
structure GF16 where
  val : Nat
  lt : val < 2^16
deriving DecidableEq

namespace GF16

@[ext] theorem ext' {a b : GF16} (h : a.val = b.val) : a = b := by
  cases a; cases b; simp_all

instance : Add GF16 := ⟨fun a b => ⟨a.val ^^^ b.val, xor_lt16 a.lt b.lt⟩⟩
instance : Mul GF16 := ⟨fun a b => ⟨gmul a.val b.val, gmul_lt a.lt b.lt⟩⟩
instance : Zero GF16 := ⟨⟨0, by norm_num⟩⟩
instance : One GF16 := ⟨⟨1, by norm_num⟩⟩
instance : Neg GF16 := ⟨fun a => a⟩

@[simp] theorem val_add (a b : GF16) : (a + b).val = a.val ^^^ b.val := rfl
@[simp] theorem val_mul (a b : GF16) : (a * b).val = gmul a.val b.val := rfl
@[simp] theorem val_zero : (0 : GF16).val = 0 := rfl
@[simp] theorem val_one : (1 : GF16).val = 1 := rfl
@[simp] theorem val_neg (a : GF16) : (-a).val = a.val := rfl

noncomputable def toR (a : GF16) : R := enc a.val

theorem toR_inj : Function.Injective toR := fun a b h => ext' (enc_inj a.lt b.lt h)
@[simp] theorem toR_add (a b : GF16) : toR (a + b) = toR a + toR b := by
  show enc (a.val ^^^ b.val) = _
  unfold enc; rw [encP_xor, map_add]; rfl
@[simp] theorem toR_mul (a b : GF16) : toR (a * b) = toR a * toR b := enc_gmul a.lt b.lt
@[simp] theorem toR_zero : toR 0 = 0 := by show enc 0 = 0; simp [enc, encP_zero]
@[simp] theorem toR_one : toR 1 = 1 := by
  show enc 1 = 1
  simp [enc, encP, Finset.sum_range_succ, Nat.testBit, Nat.shiftRight_eq_div_pow]
@[simp] theorem toR_neg (a : GF16) : toR (-a) = - toR a := by
  show toR a = - toR a
  unfold toR enc
  rw [← map_neg, CharTwo.neg_eq]

instance : CommRing GF16 where
  add_assoc a b c := toR_inj (by simp [add_assoc])
  zero_add a := toR_inj (by simp)
  add_zero a := toR_inj (by simp)
  add_comm a b := toR_inj (by simp [add_comm])
  neg_add_cancel a := toR_inj (by simp)
  mul_assoc a b c := toR_inj (by simp [mul_assoc])
  one_mul a := toR_inj (by simp)
  mul_one a := toR_inj (by simp)
  mul_comm a b := toR_inj (by simp [mul_comm])
  left_distrib a b c := toR_inj (by simp [mul_add])
  right_distrib a b c := toR_inj (by simp [add_mul])
  zero_mul a := toR_inj (by simp)
  mul_zero a := toR_inj (by simp)
  nsmul := nsmulRec
  zsmul := zsmulRec

/-! ### the element 2 has order 65535 -/

def g : GF16 := ⟨2, by norm_num⟩

theorem pow_eq_bin (x : GF16) (n : ℕ) : x ^ n = npowBinRec n x := by
  have h : @npowRecAuto GF16 _ _ n x = @npowBinRecAuto GF16 _ _ n x := by
    rw [npowRec_eq_npowBinRec]
  exact h

theorem g_pow : g ^ 65535 = 1 := by rw [pow_eq_bin]; decide +kernel
theorem g_pow3 : g ^ (65535/3) ≠ 1 := by rw [pow_eq_bin]; decide +kernel
theorem g_pow5 : g ^ (65535/5) ≠ 1 := by rw [pow_eq_bin]; decide +kernel
theorem g_pow17 : g ^ (65535/17) ≠ 1 := by rw [pow_eq_bin]; decide +kernel
theorem g_pow257 : g ^ (65535/257) ≠ 1 := by rw [pow_eq_bin]; decide +kernel

theorem orderOf_g : orderOf g = 65535 := by
  apply orderOf_eq_of_pow_and_pow_div_prime (by norm_num) g_pow
  intro p hp hd
  have h65 : (65535 : ℕ) = 3 * 5 * 17 * 257 := by norm_num
  rw [h65] at hd
  have h3 : Nat.Prime 3 := by norm_num
  have h5 : Nat.Prime 5 := by norm_num
  have h17 : Nat.Prime 17 := by norm_num
  have h257 : Nat.Prime 257 := by norm_num
  rcases (Nat.Prime.dvd_mul hp).mp hd with hd | hd
  · rcases (Nat.Prime.dvd_mul hp).mp hd with hd | hd
    · rcases (Nat.Prime.dvd_mul hp).mp hd with hd | hd
      · rw [(Nat.prime_dvd_prime_iff_eq hp h3).mp hd]; exact g_pow3
      · rw [(Nat.prime_dvd_prime_iff_eq hp h5).mp hd]; exact g_pow5
    · rw [(Nat.prime_dvd_prime_iff_eq hp h17).mp hd]; exact g_pow17
  · rw [(Nat.prime_dvd_prime_iff_eq hp h257).mp hd]; exact g_pow257

/-! ### every non-zero element is a unit -/

def equivFin : GF16 ≃ Fin (2^16) where
  toFun a := ⟨a.val, a.lt⟩
  invFun i := ⟨i.val, i.isLt⟩
  left_inv a := by cases a; rfl
  right_inv i := by cases i; rfl

instance : Fintype GF16 := Fintype.ofEquiv _ equivFin.symm
theorem card_eq : Fintype.card GF16 = 65536 := by
  rw [Fintype.card_congr equivFin]; simp

instance : Nontrivial GF16 := ⟨⟨0, 1, by decide⟩⟩

def gU : GF16ˣ :=
  ⟨g, g^65534, by rw [← pow_succ']; exact g_pow, by rw [← pow_succ]; exact g_pow⟩

theorem orderOf_gU : orderOf gU = 65535 := by
  rw [← orderOf_units]; exact orderOf_g

theorem card_units : Fintype.card GF16ˣ = 65535 ∧
    Function.Surjective (fun u : GF16ˣ => (⟨u.val, u.ne_zero⟩ : {a : GF16 // a ≠ 0})) := by
  classical
  let f : GF16ˣ → {a : GF16 // a ≠ 0} := fun u => ⟨u.val, u.ne_zero⟩
  have hf : Function.Injective f :=
    fun u v h => Units.ext (by simpa [f] using congrArg Subtype.val h)
  have hc1 : 65535 ≤ Fintype.card GF16ˣ := by
    rw [← orderOf_gU]; exact orderOf_le_card_univ
  have hc2 : Fintype.card {a : GF16 // a ≠ 0} = 65535 := by
    rw [Fintype.card_subtype_compl, card_eq]; simp
  have hle := Fintype.card_le_of_injective f hf
  refine ⟨by omega, ?_⟩
  exact ((Fintype.bijective_iff_injective_and_card f).mpr ⟨hf, by omega⟩).2

theorem isUnit_of_ne_zero {a : GF16} (ha : a ≠ 0) : IsUnit a := by
  obtain ⟨u, hu⟩ := card_units.2 ⟨a, ha⟩
  exact ⟨u, by simpa using congrArg Subtype.val hu⟩

theorem pow_card_sub_one {a : GF16} (ha : a ≠ 0) : a ^ 65535 = 1 := by
  classical
  obtain ⟨u, rfl⟩ := isUnit_of_ne_zero ha
  have := pow_card_eq_one (x := u)
  rw [card_units.1] at this
  simpa using congrArg Units.val this

def inv' (a : GF16) : GF16 := npowBinRec 65534 a
theorem inv'_eq (a : GF16) : inv' a = a ^ 65534 := (pow_eq_bin a 65534).symm
instance : Inv GF16 := ⟨inv'⟩

instance instField : Field GF16 where
  inv_zero := by show inv' 0 = 0; rw [inv'_eq]; exact zero_pow (by norm_num)
  mul_inv_cancel a ha := by
    show a * inv' a = 1
    rw [inv'_eq, ← pow_succ']; exact pow_card_sub_one ha
  exists_pair_ne := ⟨0, 1, by decide⟩
  nnqsmul := _
  qsmul := _

theorem inv_eq_pow (a : GF16) : a⁻¹ = a ^ 65534 := inv'_eq a

instance : CharP GF16 2 :=
  CharTwo.of_one_ne_zero_of_two_eq_zero (by decide) (by rw [← one_add_one_eq_two]; rfl)

theorem sub_eq_add' (a b : GF16) : a - b = a + b := CharTwo.sub_eq_add a b
theorem add_self' (a : GF16) : a + a = 0 := CharTwo.add_self_eq_zero a

/-! ### coercion helpers -/

/-- the element with value `n % 2^16`. -/
def ofNat (n : Nat) : GF16 := ⟨n % 2^16, Nat.mod_lt _ (by norm_num)⟩

theorem ofNat_val (n : Nat) : (ofNat n).val = n % 2^16 := rfl
theorem ofNat_val_of_lt {n : Nat} (h : n < 2^16) : (ofNat n).val = n := Nat.mod_eq_of_lt h
theorem ofNat_eq_mk {n : Nat} (h : n < 2^16) : ofNat n = ⟨n, h⟩ := ext' (ofNat_val_of_lt h)
@[simp] theorem ofNat_val_self (a : GF16) : ofNat a.val = a := ext' (ofNat_val_of_lt a.lt)
@[simp] theorem ofNat_zero : ofNat 0 = 0 := rfl
@[simp] theorem ofNat_one : ofNat 1 = 1 := rfl

theorem ofNat_inj {a b : Nat} (ha : a < 2^16) (hb : b < 2^16) (h : ofNat a = ofNat b) : a = b := by
  have := congrArg GF16.val h
  rwa [ofNat_val_of_lt ha, ofNat_val_of_lt hb] at this

theorem ofNat_injOn : Set.InjOn ofNat {n | n < 2^16} := fun _ ha _ hb h => ofNat_inj ha hb h

theorem ofNat_eq_zero_iff {a : Nat} (ha : a < 2^16) : ofNat a = 0 ↔ a = 0 :=
  ⟨fun h => ofNat_inj ha (by norm_num) (by simpa using h), fun h => by subst h; rfl⟩

theorem ofNat_xor {a b : Nat} (ha : a < 2^16) (hb : b < 2^16) :
    ofNat (a ^^^ b) = ofNat a + ofNat b := by
  apply ext'
  rw [val_add, ofNat_val_of_lt ha, ofNat_val_of_lt hb, ofNat_val_of_lt (xor_lt16 ha hb)]

theorem ofNat_xor_sub {a b : Nat} (ha : a < 2^16) (hb : b < 2^16) :
    ofNat (a ^^^ b) = ofNat a - ofNat b := by
  rw [sub_eq_add', ofNat_xor ha hb]

theorem ofNat_gmul {a b : Nat} (ha : a < 2^16) (hb : b < 2^16) :
    ofNat (gmul a b) = ofNat a * ofNat b := by
  apply ext'
  rw [val_mul, ofNat_val_of_lt ha, ofNat_val_of_lt hb, ofNat_val_of_lt (gmul_lt ha hb)]

theorem mk_add_mk {a b : Nat} (ha : a < 2^16) (hb : b < 2^16) :
    (⟨a, ha⟩ + ⟨b, hb⟩ : GF16) = ⟨a ^^^ b, xor_lt16 ha hb⟩ := rfl

theorem mk_mul_mk {a b : Nat} (ha : a < 2^16) (hb : b < 2^16) :
    (⟨a, ha⟩ * ⟨b, hb⟩ : GF16) = ⟨gmul a b, gmul_lt ha hb⟩ := rfl

/-! ### `gpow`, `ginv` -/

theorem gpowLoop_spec : ∀ (fuel : Nat) (b acc : GF16) (e : Nat), e < 2^fuel →
    gpowLoop fuel b.val e acc.val = (acc * b ^ e).val := by
  intro fuel
  induction fuel with
  | zero =>
    intro b acc e he
    have : e = 0 := by simpa using he
    subst this
    simp [gpowLoop]
  | succ n ih =>
    intro b acc e he
    unfold gpowLoop
    have he' : e >>> 1 < 2^n := by
      rw [Nat.shiftRight_eq_div_pow]; omega
    have hsplit : e = e % 2 + 2 * (e >>> 1) := by
      rw [Nat.shiftRight_eq_div_pow]; omega
    have hb : gmul b.val b.val = (b * b).val := rfl
    have hacc : (if e.testBit 0 then gmul acc.val b.val else acc.val)
        = (if e.testBit 0 then acc * b else acc).val := by
      split <;> rfl
    rw [hb, hacc, ih (b * b) _ (e >>> 1) he']
    congr 1
    conv_rhs => rw [hsplit, pow_add, pow_mul]
    rw [Nat.testBit_zero]
    rcases Nat.mod_two_eq_zero_or_one e with h | h
    · simp [h, sq]
    · simp [h, sq, mul_assoc]

theorem gpow_val (a : GF16) {e : Nat} (he : e < 2^16) : gpow a.val e = (a ^ e).val := by
  have := gpowLoop_spec 16 a 1 e he
  simpa [gpow] using this

theorem ginv_val (a : GF16) : ginv a.val = (a⁻¹).val := by
  rw [inv_eq_pow]; exact gpow_val a (by norm_num)

end GF16

/-! ### bridge lemmas on naturals -/

theorem gmul_lt {a b : Nat} (ha : a < 2^16) (hb : b < 2^16) : gmul a b < 2^16 :=
  GFEnc.gmul_lt ha hb

theorem xor_lt16 {a b : Nat} (ha : a < 2^16) (hb : b < 2^16) : a ^^^ b < 2^16 :=
  GFEnc.xor_lt16 ha hb

theorem gmul_comm {a b : Nat} (ha : a < 2^16) (hb : b < 2^16) : gmul a b = gmul b a :=
  congrArg GF16.val (mul_comm (⟨a, ha⟩ : GF16) ⟨b, hb⟩)

theorem gmul_assoc {a b c : Nat} (ha : a < 2^16) (hb : b < 2^16) (hc : c < 2^16) :
    gmul (gmul a b) c = gmul a (gmul b c) :=
  congrArg GF16.val (mul_assoc (⟨a, ha⟩ : GF16) ⟨b, hb⟩ ⟨c, hc⟩)

theorem gmul_one {a : Nat} (ha : a < 2^16) : gmul a 1 = a :=
  congrArg GF16.val (mul_one (⟨a, ha⟩ : GF16))

theorem one_gmul {a : Nat} (ha : a < 2^16) : gmul 1 a = a :=
  congrArg GF16.val (one_mul (⟨a, ha⟩ : GF16))

theorem gmul_zero {a : Nat} (ha : a < 2^16) : gmul a 0 = 0 :=
  congrArg GF16.val (mul_zero (⟨a, ha⟩ : GF16))

theorem zero_gmul {a : Nat} (ha : a < 2^16) : gmul 0 a = 0 :=
  congrArg GF16.val (zero_mul (⟨a, ha⟩ : GF16))

theorem gmul_xor {a b c : Nat} (ha : a < 2^16) (hb : b < 2^16) (hc : c < 2^16) :
    gmul a (b ^^^ c) = gmul a b ^^^ gmul a c :=
  congrArg GF16.val (mul_add (⟨a, ha⟩ : GF16) ⟨b, hb⟩ ⟨c, hc⟩)

theorem xor_gmul {a b c : Nat} (ha : a < 2^16) (hb : b < 2^16) (hc : c < 2^16) :
    gmul (a ^^^ b) c = gmul a c ^^^ gmul b c :=
  congrArg GF16.val (add_mul (⟨a, ha⟩ : GF16) ⟨b, hb⟩ ⟨c, hc⟩)

theorem gmul_eq_zero {a b : Nat} (ha : a < 2^16) (hb : b < 2^16) :
    gmul a b = 0 ↔ a = 0 ∨ b = 0 := by
  have h := mul_eq_zero (a := (⟨a, ha⟩ : GF16)) (b := ⟨b, hb⟩)
  constructor
  · intro h0
    have : (⟨a, ha⟩ * ⟨b, hb⟩ : GF16) = 0 := GF16.ext' h0
    rcases h.mp this with h1 | h1
    · exact Or.inl (congrArg GF16.val h1)
    · exact Or.inr (congrArg GF16.val h1)
  · rintro (rfl | rfl)
    · exact zero_gmul hb
    · exact gmul_zero ha

theorem gmul_eq_mul {a b : Nat} (ha : a < 2^16) (hb : b < 2^16) :
    (⟨gmul a b, gmul_lt ha hb⟩ : GF16) = ⟨a, ha⟩ * ⟨b, hb⟩ := rfl

theorem xor_eq_add {a b : Nat} (ha : a < 2^16) (hb : b < 2^16) :
    (⟨a ^^^ b, xor_lt16 ha hb⟩ : GF16) = ⟨a, ha⟩ + ⟨b, hb⟩ := rfl

theorem gpow_eq {a e : Nat} (ha : a < 2^16) (he : e < 2^16) :
    gpow a e = ((⟨a, ha⟩ : GF16) ^ e).val := GF16.gpow_val ⟨a, ha⟩ he

theorem gpow_lt {a e : Nat} (ha : a < 2^16) (he : e < 2^16) : gpow a e < 2^16 := by
  rw [gpow_eq ha he]; exact GF16.lt _

theorem ginv_eq {a : Nat} (ha : a < 2^16) : ginv a = ((⟨a, ha⟩ : GF16)⁻¹).val :=
  GF16.ginv_val ⟨a, ha⟩

theorem ginv_lt {a : Nat} (ha : a < 2^16) : ginv a < 2^16 := by
  rw [ginv_eq ha]; exact GF16.lt _

theorem ginv_zero : ginv 0 = 0 := by
  rw [ginv_eq (by norm_num : 0 < 2^16)]
  show ((0 : GF16)⁻¹).val = 0
  rw [inv_zero]; rfl

theorem gmul_ginv {a : Nat} (h0 : 0 < a) (ha : a < 2^16) : gmul a (ginv a) = 1 := by
  rw [ginv_eq ha]
  have hne : (⟨a, ha⟩ : GF16) ≠ 0 := fun h => by
    have := congrArg GF16.val h
    simp at this; omega
  exact congrArg GF16.val (mul_inv_cancel₀ hne)

theorem ginv_gmul {a : Nat} (h0 : 0 < a) (ha : a < 2^16) : gmul (ginv a) a = 1 := by
  rw [gmul_comm (ginv_lt ha) ha]; exact gmul_ginv h0 ha

theorem GF16.ofNat_ginv {a : Nat} (ha : a < 2^16) : GF16.ofNat (ginv a) = (GF16.ofNat a)⁻¹ := by
  apply GF16.ext'
  rw [GF16.ofNat_val_of_lt (ginv_lt ha), ginv_eq ha, GF16.ofNat_eq_mk ha]

theorem GF16.ofNat_gpow {a e : Nat} (ha : a < 2^16) (he : e < 2^16) :
    GF16.ofNat (gpow a e) = (GF16.ofNat a) ^ e := by
  apply GF16.ext'
  rw [GF16.ofNat_val_of_lt (gpow_lt ha he), gpow_eq ha he, GF16.ofNat_eq_mk ha]

end Lec

#print axioms Lec.GF16.instField
#print axioms Lec.gmul_assoc
#print axioms Lec.gmul_ginv
#print axioms Lec.gpow_eq
