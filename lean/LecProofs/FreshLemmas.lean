/-
  LecProofs.FreshLemmas — what the readers see in a fragment written by add_fragment_metadata.
-/
import LecProofs.EncodeLemmas
import LecProofs.ParseLemmas
import LecProofs.CrcLemmas
namespace Lec

/-- side conditions under which the fields of a fresh header fit their C types. -/
structure FreshOK (env : Env) (i : Inst) (idx orig bs : Nat) : Prop where
  idx : idx < 2 ^ 32
  orig : orig < 2 ^ 64
  bs : bs < 2 ^ 32
  ct : i.ct < 256
  beId : i.beId < 256
  beVer : i.beVer < 2 ^ 32
  libver : env.libver < 2 ^ 32
  libver0 : env.libver ≠ 0

theorem specHeader_WF (env : Env) (i : Inst) (idx orig bs : Nat) (p : Bytes)
    (h : FreshOK env i idx orig bs) : (specHeader env i idx orig bs p).WF where
  idx := h.idx
  size := h.bs
  bmSize := by simp [specHeader, specMeta]
  origSize := h.orig
  ctype := h.ct
  chkLen := by simp [specHeader, specMeta]
  chk := by
    intro c hc
    simp only [specHeader, specMeta, List.mem_cons, List.mem_replicate] at hc
    rcases hc with rfl | ⟨_, rfl⟩
    · split
      · exact crcWrite_lt _ _
      · decide
    · decide
  mismatch := by simp [specHeader, specMeta]
  beId := h.beId
  beVer := h.beVer
  magic := by simp [specHeader, magicC]
  libver := h.libver
  metaCrc := crcWrite_lt _ _

section
variable (env : Env) (i : Inst) (idx orig bs : Nat) (p : Bytes) (h : FreshOK env i idx orig bs)
include h

theorem fresh_parse : parseHeader ((specHeader env i idx orig bs p).bytes ++ p) = specHeader env i idx orig bs p :=
  parseHeader_bytes _ (specHeader_WF env i idx orig bs p h) p

theorem fresh_parseMeta : parseMeta ((specHeader env i idx orig bs p).bytes ++ p) = specMeta env i idx orig bs p := by
  have := congrArg Header.md (fresh_parse env i idx orig bs p h)
  simpa [parseHeader, specHeader] using this

theorem fresh_magic : fMagic ((specHeader env i idx orig bs p).bytes ++ p) = magicC := by
  have := congrArg Header.magic (fresh_parse env i idx orig bs p h)
  simpa [parseHeader, specHeader] using this

theorem fresh_libver : fLibver ((specHeader env i idx orig bs p).bytes ++ p) = env.libver := by
  have := congrArg Header.libver (fresh_parse env i idx orig bs p h)
  simpa [parseHeader, specHeader] using this

theorem fresh_metaCrc : fMetaCrc ((specHeader env i idx orig bs p).bytes ++ p) =
    crcWrite env.legacy (specMeta env i idx orig bs p).bytes := by
  have := congrArg Header.metaCrc (fresh_parse env i idx orig bs p h)
  simpa [parseHeader, specHeader] using this

theorem fresh_metaBytes : fMetaBytes ((specHeader env i idx orig bs p).bytes ++ p) =
    (specMeta env i idx orig bs p).bytes := by
  have hl : (specHeader env i idx orig bs p).md.bytes.length = 59 :=
    meta_bytes_length _ (specHeader_WF env i idx orig bs p h).chkLen
  unfold fMetaBytes Hdr.metaSize
  simp only [Header.bytes, List.append_assoc]
  rw [List.take_append_of_le_length (by omega), List.take_of_length_le (by omega)]
  rfl

theorem fresh_payload : fPayload ((specHeader env i idx orig bs p).bytes ++ p) = p := by
  have hl := header_bytes_length _ (specHeader_WF env i idx orig bs p h).chkLen
  unfold fPayload
  rw [List.drop_append_of_le_length (by rw [hl]; decide), List.drop_of_length_le (by rw [hl]; decide)]
  simp

theorem fresh_header_valid : isInvalidHeader ((specHeader env i idx orig bs p).bytes ++ p) = false := by
  unfold isInvalidHeader
  rw [fresh_libver env i idx orig bs p h, fresh_magic env i idx orig bs p h, fresh_metaCrc env i idx orig bs p h,
    fresh_metaBytes env i idx orig bs p h]
  have h0 := h.libver0
  simp only [bne_self_eq_false, Bool.false_eq_true, if_false]
  have : (env.libver == 0) = false := by simp [h0]
  simp only [this, Bool.false_eq_true, if_false]
  unfold crcWrite
  cases env.legacy <;> simp

theorem fresh_size : fSize ((specHeader env i idx orig bs p).bytes ++ p) = bs := by
  have := congrArg Meta.size (fresh_parseMeta env i idx orig bs p h)
  simpa [parseMeta, specMeta] using this

theorem fresh_bmSize : fBmSize ((specHeader env i idx orig bs p).bytes ++ p) = 0 := by
  have := congrArg Meta.bmSize (fresh_parseMeta env i idx orig bs p h)
  simpa [parseMeta, specMeta] using this

/-- a fresh fragment announces exactly its payload: it fits every declared length that holds the
    header and `bs` payload bytes (`fragment_exceeds_length` is false). -/
theorem fresh_not_exceeds (fragLen : Nat) (hl : Hdr.size + bs ≤ fragLen) :
    fragExceedsLength ((specHeader env i idx orig bs p).bytes ++ p) fragLen = false := by
  unfold fragExceedsLength
  rw [fresh_size env i idx orig bs p h, fresh_bmSize env i idx orig bs p h]
  simp only [decide_eq_false_iff_not]
  omega

/-- a fresh fragment passes the header loop of decode / reconstruct. -/
theorem fresh_gate (fragLen : Nat) (hl : Hdr.size + bs ≤ fragLen) :
    gateBad fragLen ((specHeader env i idx orig bs p).bytes ++ p) = false := by
  unfold gateBad
  rw [fresh_header_valid env i idx orig bs p h, fresh_not_exceeds env i idx orig bs p h fragLen hl]
  rfl

/-- the metadata query on a fresh fragment returns the specified metadata, mismatch flag clear. -/
theorem fresh_metadata (hp : p.length = bs) :
    getFragmentMetadata ((specHeader env i idx orig bs p).bytes ++ p) = .ok (specMeta env i idx orig bs p) := by
  unfold getFragmentMetadata
  rw [fresh_header_valid env i idx orig bs p h, fresh_magic env i idx orig bs p h,
    fresh_parseMeta env i idx orig bs p h, fresh_payload env i idx orig bs p h]
  simp only [Bool.false_eq_true, if_false, bne_self_eq_false]
  by_cases hct : (specMeta env i idx orig bs p).ctype = 2
  · have hct' : i.ct = 2 := hct
    have hsz : (specMeta env i idx orig bs p).size = bs := rfl
    have hst : (specMeta env i idx orig bs p).chksum.getD 0 0 = crcWrite env.legacy p := by
      simp [specMeta, hct']
    have htk : List.take bs p = p := List.take_of_length_le (by omega)
    simp only [hct, beq_self_eq_true, if_true, hsz, hst, htk, pure, Except.pure]
    have hmm : (if (crcWrite env.legacy p == crcStd p) = true then 0
        else if (crcWrite env.legacy p == crcAlt p) = true then 0 else 1) = 0 := by
      unfold crcWrite; cases env.legacy <;> simp
    rw [hmm]
    congr 1
    simp only [specMeta] at hct ⊢
    simp [hct]
  · have : ((specMeta env i idx orig bs p).ctype == 2) = false := by simp [hct]
    simp only [this, Bool.false_eq_true, if_false, pure, Except.pure]

end
end Lec
