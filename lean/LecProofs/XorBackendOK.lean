/-
  LecProofs.XorBackendOK — the flat-XOR theorems restated on the model's `xorBackend` record
  (the adapter the front end calls), for payload buffers of exactly `bs` bytes:
  encode produces the stripe, decode restores the whole stripe, reconstruct restores the
  destination fragment — for every generated table, payload length, payload content and
  ascending erasure list with fewer than `hd` entries.
-/
import LecModel.Backends
import LecProofs.XorTablesOK
namespace Lec

theorem runOp_lengths {V : Type} (xor : V → V → V) (zero : V) (s : XState V) (op : Op) :
    (runOp xor zero s op).data.length = s.data.length ∧
    (runOp xor zero s op).parity.length = s.parity.length := by
  cases op with
  | copy dst src => cases dst <;> simp [runOp, XState.set]
  | xorInto src dst => cases dst <;> simp [runOp, XState.set]
  | zero dst => cases dst <;> simp [runOp, XState.set]

theorem runOps_lengths {V : Type} (xor : V → V → V) (zero : V) (ops : List Op) (s : XState V) :
    (runOps xor zero ops s).data.length = s.data.length ∧
    (runOps xor zero ops s).parity.length = s.parity.length := by
  induction ops generalizing s with
  | nil => exact ⟨rfl, rfl⟩
  | cons op ops ih =>
    have h1 := ih (runOp xor zero s op)
    have h2 := runOp_lengths xor zero s op
    simp only [runOps, List.foldl_cons] at h1 ⊢
    exact ⟨h1.1.trans h2.1, h1.2.trans h2.2⟩

theorem zip_map_restore (bs : Nat) (l1 l2 : List Bytes) (hl : l1.length = l2.length)
    (h2 : ∀ b ∈ l2, b.length = bs) :
    (List.zip l1 l2).map (fun (a, b) => a ++ b.drop bs) = l1 := by
  induction l1 generalizing l2 with
  | nil => simp
  | cons a l1 ih =>
    cases l2 with
    | nil => simp at hl
    | cons b l2 =>
      have hb : b.length = bs := h2 b (by simp)
      simp only [List.zip_cons_cons, List.map_cons]
      rw [ih l2 (by simpa using hl) (fun c hc => h2 c (by simp [hc]))]
      rw [List.drop_of_length_le (by omega)]; simp

theorem map_take_id (bs : Nat) (l : List Bytes) (h : ∀ b ∈ l, b.length = bs) :
    l.map (·.take bs) = l := by
  induction l with
  | nil => rfl
  | cons b l ih =>
    simp only [List.map_cons]
    rw [ih (fun c hc => h c (by simp [hc])), List.take_of_length_le (by rw [h b (by simp)]; omega)]

/-- on buffers of exactly `bs` bytes `xorRunBytes` is just `runOps`. -/
theorem xorRunBytes_exact (ops : List Op) (data parity : List Bytes) (bs : Nat)
    (hd : ∀ b ∈ data, b.length = bs) (hp : ∀ b ∈ parity, b.length = bs) :
    xorRunBytes ops data parity bs =
      .ok ((runOps xorBytes (zeros bs) ops ⟨data, parity, zeros bs⟩).data,
           (runOps xorBytes (zeros bs) ops ⟨data, parity, zeros bs⟩).parity) := by
  unfold xorRunBytes
  have h1 : data.any (·.length < bs) = false := by
    rw [List.any_eq_false]; intro b hb; simp [hd b hb]
  have h2 : parity.any (·.length < bs) = false := by
    rw [List.any_eq_false]; intro b hb; simp [hp b hb]
  simp only [h1, h2, Bool.or_self, Bool.false_eq_true, if_false]
  rw [map_take_id bs data hd, map_take_id bs parity hp]
  have hl := runOps_lengths xorBytes (zeros bs) ops ⟨data, parity, zeros bs⟩
  rw [zip_map_restore bs _ data hl.1 hd, zip_map_restore bs _ parity hl.2 hp]

theorem eraseBufs_tmp {V : Type} (zero : V) (T : XorTable) (E : List Nat) (x : XState V) :
    (xorEraseBufs zero T E x).tmp = x.tmp := by
  induction E generalizing x with
  | nil => rfl
  | cons e E ih =>
    simp only [xorEraseBufs, List.foldl_cons] at ih ⊢
    rw [ih]
    unfold XorTable.bufOf
    split <;> rfl

theorem eraseBufs_lens (bs : Nat) (T : XorTable) (E : List Nat) (x : XState Bytes)
    (hd : ∀ b ∈ x.data, b.length = bs) (hp : ∀ b ∈ x.parity, b.length = bs) :
    (∀ b ∈ (xorEraseBufs (zeros bs) T E x).data, b.length = bs) ∧
    (∀ b ∈ (xorEraseBufs (zeros bs) T E x).parity, b.length = bs) := by
  induction E generalizing x with
  | nil => exact ⟨hd, hp⟩
  | cons e E ih =>
    simp only [xorEraseBufs, List.foldl_cons] at ih ⊢
    apply ih
    · intro b hb
      unfold XorTable.bufOf at hb
      split at hb
      · rcases List.mem_or_eq_of_mem_set hb with h | h
        · exact hd b h
        · rw [h]; simp [zeros]
      · exact hd b hb
    · intro b hb
      unfold XorTable.bufOf at hb
      split at hb
      · exact hp b hb
      · rcases List.mem_or_eq_of_mem_set hb with h | h
        · exact hp b h
        · rw [h]; simp [zeros]

theorem stripe_lens (T : XorTable) {bs : Nat} {d : List Bytes} (hd : ∀ x ∈ d, x.length = bs) :
    (∀ b ∈ (T.stripe bs d).data, b.length = bs) ∧ (∀ b ∈ (T.stripe bs d).parity, b.length = bs) := by
  refine ⟨hd, ?_⟩
  intro b hb
  simp only [XorTable.stripe, List.mem_map] at hb
  obtain ⟨j, _, rfl⟩ := hb
  exact interp_length hd _

/-- **encode through the backend record**: for every table (no hypothesis on `T`). -/
theorem xorBackend_encode (T : XorTable) (bs : Nat) (d : List Bytes) (hk : d.length = T.k)
    (hd : ∀ x ∈ d, x.length = bs) :
    (xorBackend T).encode d (List.replicate T.m (zeros bs)) bs
      = .ok (d, (List.range T.m).map (fun j => interp bs d (T.pbm j))) := by
  show xorRunBytes T.encodeOps d (List.replicate T.m (zeros bs)) bs = _
  rw [xorRunBytes_exact _ _ _ _ hd (by intro b hb; rw [(List.mem_replicate.1 hb).2]; simp [zeros])]
  obtain ⟨h1, h2⟩ := T.encode_bytes hk hd
  rw [h1, h2]

/-- **decode through the backend record**: the stripe with the erased fragments zeroed is
    decoded back to the full stripe. -/
theorem xorBackend_decode (T : XorTable) (hT : T ∈ LecGen.xorTables) (bs : Nat) (d : List Bytes)
    (hk : d.length = T.k) (hd : ∀ x ∈ d, x.length = bs) (E : List Nat) (hE : T.ErasureList E) :
    (xorBackend T).decode (xorEraseBufs (zeros bs) T E (T.stripe bs d)).data
        (xorEraseBufs (zeros bs) T E (T.stripe bs d)).parity E bs
      = .ok (d, (List.range T.m).map (fun j => interp bs d (T.pbm j))) := by
  obtain ⟨ops, hp, h1, h2⟩ := xorTables_decode_bytes T hT bs d hk hd E hE
  obtain ⟨l1, l2⟩ := eraseBufs_lens bs T E _ (stripe_lens T hd).1 (stripe_lens T hd).2
  show runPlan (T.planDecode E) _ _ bs = _
  rw [hp]
  show xorRunBytes ops _ _ bs = _
  rw [xorRunBytes_exact _ _ _ _ l1 l2]
  have e : (⟨(xorEraseBufs (zeros bs) T E (T.stripe bs d)).data,
      (xorEraseBufs (zeros bs) T E (T.stripe bs d)).parity, zeros bs⟩ : XState Bytes)
      = xorEraseBufs (zeros bs) T E (T.stripe bs d) := by
    have := eraseBufs_tmp (zeros bs) T E (T.stripe bs d)
    cases hx : xorEraseBufs (zeros bs) T E (T.stripe bs d) with
    | mk a b c => rw [hx] at this; simp only [XorTable.stripe] at this; simp [this]
  rw [e, h1, h2]

/-- **reconstruct through the backend record**: the destination fragment is restored. -/
theorem xorBackend_reconstruct (T : XorTable) (hT : T ∈ LecGen.xorTables) (bs : Nat)
    (d : List Bytes) (hk : d.length = T.k) (hd : ∀ x ∈ d, x.length = bs) (E : List Nat)
    (hE : T.ErasureList E) (dest : Nat) (hdest : dest ∈ E) :
    ∃ d' p', (xorBackend T).reconstruct (xorEraseBufs (zeros bs) T E (T.stripe bs d)).data
        (xorEraseBufs (zeros bs) T E (T.stripe bs d)).parity E dest bs = .ok (d', p') ∧
      (XState.mk d' p' (zeros bs)).get (zeros bs) (T.bufOf dest)
        = (T.stripe bs d).get (zeros bs) (T.bufOf dest) := by
  obtain ⟨ops, hp, h1⟩ := xorTables_recon_bytes T hT bs d hk hd E hE dest hdest
  obtain ⟨l1, l2⟩ := eraseBufs_lens bs T E _ (stripe_lens T hd).1 (stripe_lens T hd).2
  have e : (⟨(xorEraseBufs (zeros bs) T E (T.stripe bs d)).data,
      (xorEraseBufs (zeros bs) T E (T.stripe bs d)).parity, zeros bs⟩ : XState Bytes)
      = xorEraseBufs (zeros bs) T E (T.stripe bs d) := by
    have := eraseBufs_tmp (zeros bs) T E (T.stripe bs d)
    cases hx : xorEraseBufs (zeros bs) T E (T.stripe bs d) with
    | mk a b c => rw [hx] at this; simp only [XorTable.stripe] at this; simp [this]
  refine ⟨(runOps xorBytes (zeros bs) ops (xorEraseBufs (zeros bs) T E (T.stripe bs d))).data,
    (runOps xorBytes (zeros bs) ops (xorEraseBufs (zeros bs) T E (T.stripe bs d))).parity, ?_, ?_⟩
  · show runPlan (T.planReconOne E dest) _ _ bs = _
    rw [hp]
    show xorRunBytes ops _ _ bs = _
    rw [xorRunBytes_exact _ _ _ _ l1 l2, e]
  · rw [← h1]
    unfold XorTable.bufOf
    split <;> rfl

end Lec

#print axioms Lec.xorBackend_encode
#print axioms Lec.xorBackend_decode
#print axioms Lec.xorBackend_reconstruct
