/-
  LecProofs.IsaLGF8 — non-vacuity of `IsaPrimsOK`: the GF(2^8) reference primitives of
  LecModel.IsaL (`gf8PrimsVand`, `gf8PrimsCauchy`; polynomial 0x11d) satisfy the contract.

  * `GF8` : bytes with xor / `gf8Mul` form a field (same route as LecProofs.GF16Field:
    embedding into `(ZMod 2)[X] / (X^8+X^4+X^3+X^2+1)`, the element 2 has order 255).
  * `gf8Invert_sound` : the list-based Gauss–Jordan inversion returns a left inverse
    (row operations are `Lec.GJ.swapR/scaleR/elimR` of LecProofs.GaussJordan).
  * `gf8_primsOK_vand`, `gf8_primsOK_cauchy`.
  All names live in `namespace Lec.IsaL`.
-/
import LecModel.IsaL
import LecProofs.GF16Field
import LecProofs.GaussJordan
import LecProofs.IsaLCorrect
open Polynomial

namespace Lec
namespace IsaL
open GFEnc (encP encP_xor encP_succ_of_lt encP_shift encP_zero encP_coeff degree_encP_lt)

/-! ### encoding bytes into `(ZMod 2)[X] / P8` -/

noncomputable def P8 : (ZMod 2)[X] := X^8 + X^4 + X^3 + X^2 + 1

theorem encP_poly8 : encP 9 0x11d = P8 := by
  simp [encP, Finset.sum_range_succ, P8, Nat.testBit, Nat.shiftRight_eq_div_pow]
  ring

abbrev R8 := AdjoinRoot P8
noncomputable def enc8 (n : Nat) : R8 := AdjoinRoot.mk P8 (encP 8 n)

/-- multiply by x and reduce (the `x'` of `gf8Mul.go`). -/
def xt8 (x : Nat) : Nat := if (x <<< 1).testBit 8 then (x <<< 1) ^^^ 0x11d else x <<< 1

theorem xt8_lt {a : Nat} (h : a < 2^8) : xt8 a < 2^8 := by
  unfold xt8
  split
  · rename_i hb
    apply Nat.lt_pow_two_of_testBit
    intro i hi
    rw [Nat.testBit_xor]
    rcases Nat.lt_or_ge 8 i with h2 | h2
    · have h1 : (0x11d).testBit i = false :=
        Nat.testBit_lt_two_pow (lt_of_lt_of_le (by norm_num)
          (Nat.pow_le_pow_right (by norm_num) (show 9 ≤ i by omega)))
      have h3 : (a <<< 1).testBit i = false := by
        rw [Nat.testBit_shiftLeft]
        have : a.testBit (i-1) = false :=
          Nat.testBit_lt_two_pow (lt_of_lt_of_le h (Nat.pow_le_pow_right (by norm_num) (by omega)))
        simp [this]
      simp [h1, h3]
    · have : i = 8 := by omega
      subst this
      rw [hb]
      decide
  · rename_i hb
    apply Nat.lt_pow_two_of_testBit
    intro i hi
    rcases Nat.lt_or_ge 8 i with h2 | h2
    · rw [Nat.testBit_shiftLeft]
      have : a.testBit (i-1) = false :=
        Nat.testBit_lt_two_pow (lt_of_lt_of_le h (Nat.pow_le_pow_right (by norm_num) (by omega)))
      simp [this]
    · have : i = 8 := by omega
      subst this
      simpa using hb

theorem enc8_xt8 {a : Nat} (h : a < 2^8) : enc8 (xt8 a) = AdjoinRoot.root P8 * enc8 a := by
  have hx := xt8_lt h
  unfold enc8
  rw [← encP_succ_of_lt hx]
  unfold xt8
  split
  · rw [encP_xor, encP_shift, encP_poly8, map_add, AdjoinRoot.mk_self, add_zero, map_mul,
      AdjoinRoot.mk_X]
  · rw [encP_shift, map_mul, AdjoinRoot.mk_X]

theorem go_succ (b fuel x i acc : Nat) :
    gf8Mul.go b (fuel + 1) x i acc =
      gf8Mul.go b fuel (xt8 x) (i + 1) (if b.testBit i then acc ^^^ x else acc) := rfl

theorem go_zero (b x i acc : Nat) : gf8Mul.go b 0 x i acc = acc := rfl

/-- bits `i, i+1, …, i+w-1` of `b` as a polynomial. -/
noncomputable def bitsP (b i w : Nat) : (ZMod 2)[X] :=
  ∑ t ∈ Finset.range w, if b.testBit (i + t) then X^t else 0

theorem bitsP_succ (b i w : Nat) :
    bitsP b i (w + 1) = (if b.testBit i then (1 : (ZMod 2)[X]) else 0) + X * bitsP b (i + 1) w := by
  unfold bitsP
  rw [Finset.sum_range_succ', Finset.mul_sum, add_comm]
  refine congrArg₂ (· + ·) ?_ ?_
  · simp
  · apply Finset.sum_congr rfl
    intro t _
    have : i + 1 + t = i + (t + 1) := by omega
    rw [this]
    split <;> simp [pow_succ, mul_comm]

theorem bitsP_zero_eq (b w : Nat) : bitsP b 0 w = encP w b := by
  unfold bitsP encP
  simp

theorem go_spec (b : Nat) : ∀ (fuel x i acc : Nat), x < 2^8 → acc < 2^8 →
    gf8Mul.go b fuel x i acc < 2^8 ∧
    enc8 (gf8Mul.go b fuel x i acc) = enc8 acc + enc8 x * AdjoinRoot.mk P8 (bitsP b i fuel) := by
  intro fuel
  induction fuel with
  | zero =>
    intro x i acc _ hacc
    rw [go_zero]
    refine ⟨hacc, ?_⟩
    simp [bitsP]
  | succ n ih =>
    intro x i acc hx hacc
    rw [go_succ]
    have hacc' : (if b.testBit i then acc ^^^ x else acc) < 2^8 := by
      split
      · exact Nat.xor_lt_two_pow hacc hx
      · exact hacc
    obtain ⟨h1, h2⟩ := ih (xt8 x) (i + 1) _ (xt8_lt hx) hacc'
    refine ⟨h1, ?_⟩
    rw [h2, enc8_xt8 hx, bitsP_succ, map_add, map_mul, AdjoinRoot.mk_X]
    split
    · simp only [enc8, encP_xor, map_add, map_one]; ring
    · simp only [map_zero]; ring

theorem gf8Mul_lt {a : Nat} (ha : a < 2^8) (b : Nat) : gf8Mul a b < 2^8 :=
  (go_spec b 8 a 0 0 ha (by norm_num)).1

theorem enc8_gf8Mul {a : Nat} (ha : a < 2^8) (b : Nat) :
    enc8 (gf8Mul a b) = enc8 a * enc8 b := by
  have := (go_spec b 8 a 0 0 ha (by norm_num)).2
  rw [bitsP_zero_eq] at this
  have h0 : enc8 0 = 0 := by simp [enc8, encP_zero]
  rw [h0, zero_add] at this
  exact this

theorem P8_monic : P8.Monic := by
  unfold P8; monicity!

theorem P8_degree : P8.degree = 8 := by
  unfold P8; compute_degree!

theorem enc8_eq_zero {c : Nat} (hc : c < 2^8) (h : enc8 c = 0) : c = 0 := by
  unfold enc8 at h
  rw [AdjoinRoot.mk_eq_zero] at h
  have h0 : encP 8 c = 0 := by
    by_contra hne
    refine P8_monic.not_dvd_of_degree_lt hne ?_ h
    rw [P8_degree]
    exact_mod_cast degree_encP_lt 8 c
  apply Nat.eq_of_testBit_eq
  intro i
  rw [Nat.zero_testBit]
  by_cases hi : i < 8
  · have := congrArg (fun p => p.coeff i) h0
    simp only [encP_coeff, coeff_zero] at this
    by_contra hne
    simp [hi] at this
    exact hne (by simpa using this)
  · exact Nat.testBit_lt_two_pow
      (lt_of_lt_of_le hc (Nat.pow_le_pow_right (by norm_num) (by omega)))

theorem enc8_inj {a b : Nat} (ha : a < 2^8) (hb : b < 2^8) (h : enc8 a = enc8 b) : a = b := by
  have : enc8 (a ^^^ b) = 0 := by
    unfold enc8 at *
    rw [encP_xor, map_add, h, ← map_add, CharTwo.add_self_eq_zero, map_zero]
  have h0 := enc8_eq_zero (Nat.xor_lt_two_pow ha hb) this
  have h1 : b = (a ^^^ b) ^^^ a := by
    rw [Nat.xor_comm a b, Nat.xor_assoc, Nat.xor_self, Nat.xor_zero]
  rw [h1, h0, Nat.zero_xor]

/-! ### the field `GF8` -/

/-- elements of GF(2^8): naturals below 2^8; `+` is xor, `*` is `gf8Mul`. -/
structure GF8 where
  val : Nat
  lt : val < 2^8
deriving DecidableEq

namespace GF8

@[ext] theorem ext' {a b : GF8} (h : a.val = b.val) : a = b := by
  cases a; cases b; simp_all

instance : Add GF8 := ⟨fun a b => ⟨a.val ^^^ b.val, Nat.xor_lt_two_pow a.lt b.lt⟩⟩
instance : Mul GF8 := ⟨fun a b => ⟨gf8Mul a.val b.val, gf8Mul_lt a.lt b.val⟩⟩
instance : Zero GF8 := ⟨⟨0, by norm_num⟩⟩
instance : One GF8 := ⟨⟨1, by norm_num⟩⟩
instance : Neg GF8 := ⟨fun a => a⟩

@[simp] theorem val_add (a b : GF8) : (a + b).val = a.val ^^^ b.val := rfl
@[simp] theorem val_mul (a b : GF8) : (a * b).val = gf8Mul a.val b.val := rfl
@[simp] theorem val_zero : (0 : GF8).val = 0 := rfl
@[simp] theorem val_one : (1 : GF8).val = 1 := rfl

noncomputable def toR (a : GF8) : R8 := enc8 a.val

theorem toR_inj : Function.Injective toR := fun a b h => ext' (enc8_inj a.lt b.lt h)
@[simp] theorem toR_add (a b : GF8) : toR (a + b) = toR a + toR b := by
  show enc8 (a.val ^^^ b.val) = _
  unfold enc8; rw [encP_xor, map_add]; rfl
@[simp] theorem toR_mul (a b : GF8) : toR (a * b) = toR a * toR b := enc8_gf8Mul a.lt b.val
@[simp] theorem toR_zero : toR 0 = 0 := by show enc8 0 = 0; simp [enc8, encP_zero]
@[simp] theorem toR_one : toR 1 = 1 := by
  show enc8 1 = 1
  simp [enc8, encP, Finset.sum_range_succ, Nat.testBit, Nat.shiftRight_eq_div_pow]
@[simp] theorem toR_neg (a : GF8) : toR (-a) = - toR a := by
  show toR a = - toR a
  unfold toR enc8
  rw [← map_neg, CharTwo.neg_eq]

instance : CommRing GF8 where
  add_assoc a b c := toR_inj (by simp [add_assoc])
  zero_add a := toR_inj (by simp)
  add_zero a := toR_inj (by simp)
  add_comm a b := toR_inj (by simp [add_comm])
  neg_add_cancel a := toR_inj (by simp)
  mul_assoc a b c := toR_inj (by simp [mul_assoc])
  one_mul a := toR_inj (by simp)
  mul_one a := toR_inj (by simp)
  mul_comm a b := toR_inj (by simp [mul_comm])
  left_distrib a b c := toR_inj (by simp [mul_add])
  right_distrib a b c := toR_inj (by simp [add_mul])
  zero_mul a := toR_inj (by simp)
  mul_zero a := toR_inj (by simp)
  nsmul := nsmulRec
  zsmul := zsmulRec

def g : GF8 := ⟨2, by norm_num⟩

theorem pow_eq_bin (x : GF8) (n : ℕ) : x ^ n = npowBinRec n x := by
  have h : @npowRecAuto GF8 _ _ n x = @npowBinRecAuto GF8 _ _ n x := by
    rw [npowRec_eq_npowBinRec]
  exact h

theorem g_pow : g ^ 255 = 1 := by rw [pow_eq_bin]; decide +kernel
theorem g_pow3 : g ^ (255/3) ≠ 1 := by rw [pow_eq_bin]; decide +kernel
theorem g_pow5 : g ^ (255/5) ≠ 1 := by rw [pow_eq_bin]; decide +kernel
theorem g_pow17 : g ^ (255/17) ≠ 1 := by rw [pow_eq_bin]; decide +kernel

theorem orderOf_g : orderOf g = 255 := by
  apply orderOf_eq_of_pow_and_pow_div_prime (by norm_num) g_pow
  intro p hp hd
  have h255 : (255 : ℕ) = 3 * 5 * 17 := by norm_num
  rw [h255] at hd
  have h3 : Nat.Prime 3 := by norm_num
  have h5 : Nat.Prime 5 := by norm_num
  have h17 : Nat.Prime 17 := by norm_num
  rcases (Nat.Prime.dvd_mul hp).mp hd with hd | hd
  · rcases (Nat.Prime.dvd_mul hp).mp hd with hd | hd
    · rw [(Nat.prime_dvd_prime_iff_eq hp h3).mp hd]; exact g_pow3
    · rw [(Nat.prime_dvd_prime_iff_eq hp h5).mp hd]; exact g_pow5
  · rw [(Nat.prime_dvd_prime_iff_eq hp h17).mp hd]; exact g_pow17

def equivFin : GF8 ≃ Fin (2^8) where
  toFun a := ⟨a.val, a.lt⟩
  invFun i := ⟨i.val, i.isLt⟩
  left_inv a := by cases a; rfl
  right_inv i := by cases i; rfl

instance : Fintype GF8 := Fintype.ofEquiv _ equivFin.symm
theorem card_eq : Fintype.card GF8 = 256 := by
  rw [Fintype.card_congr equivFin]; simp

instance : Nontrivial GF8 := ⟨⟨0, 1, by decide⟩⟩

def gU : GF8ˣ :=
  ⟨g, g^254, by rw [← pow_succ']; exact g_pow, by rw [← pow_succ]; exact g_pow⟩

theorem orderOf_gU : orderOf gU = 255 := by
  rw [← orderOf_units]; exact orderOf_g

theorem card_units : Fintype.card GF8ˣ = 255 ∧
    Function.Surjective (fun u : GF8ˣ => (⟨u.val, u.ne_zero⟩ : {a : GF8 // a ≠ 0})) := by
  classical
  let f : GF8ˣ → {a : GF8 // a ≠ 0} := fun u => ⟨u.val, u.ne_zero⟩
  have hf : Function.Injective f :=
    fun u v h => Units.ext (by simpa [f] using congrArg Subtype.val h)
  have hc1 : 255 ≤ Fintype.card GF8ˣ := by
    rw [← orderOf_gU]; exact orderOf_le_card_univ
  have hc2 : Fintype.card {a : GF8 // a ≠ 0} = 255 := by
    rw [Fintype.card_subtype_compl, card_eq]; simp
  have hle := Fintype.card_le_of_injective f hf
  refine ⟨by omega, ?_⟩
  exact ((Fintype.bijective_iff_injective_and_card f).mpr ⟨hf, by omega⟩).2

theorem isUnit_of_ne_zero {a : GF8} (ha : a ≠ 0) : IsUnit a := by
  obtain ⟨u, hu⟩ := card_units.2 ⟨a, ha⟩
  exact ⟨u, by simpa using congrArg Subtype.val hu⟩

theorem pow_card_sub_one {a : GF8} (ha : a ≠ 0) : a ^ 255 = 1 := by
  classical
  obtain ⟨u, rfl⟩ := isUnit_of_ne_zero ha
  have := pow_card_eq_one (x := u)
  rw [card_units.1] at this
  simpa using congrArg Units.val this

def inv' (a : GF8) : GF8 := npowBinRec 254 a
theorem inv'_eq (a : GF8) : inv' a = a ^ 254 := (pow_eq_bin a 254).symm
instance : Inv GF8 := ⟨inv'⟩

instance instField : Field GF8 where
  inv_zero := by show inv' 0 = 0; rw [inv'_eq]; exact zero_pow (by norm_num)
  mul_inv_cancel a ha := by
    show a * inv' a = 1
    rw [inv'_eq, ← pow_succ']; exact pow_card_sub_one ha
  exists_pair_ne := ⟨0, 1, by decide⟩
  nnqsmul := _
  qsmul := _

theorem inv_eq_pow (a : GF8) : a⁻¹ = a ^ 254 := inv'_eq a

instance : CharP GF8 2 :=
  CharTwo.of_one_ne_zero_of_two_eq_zero (by decide) (by rw [← one_add_one_eq_two]; rfl)

/-- the element with value `n % 2^8`. -/
def ofNat (n : Nat) : GF8 := ⟨n % 2^8, Nat.mod_lt _ (by norm_num)⟩

theorem ofNat_val_of_lt {n : Nat} (h : n < 2^8) : (ofNat n).val = n := Nat.mod_eq_of_lt h
theorem ofNat_eq_mk {n : Nat} (h : n < 2^8) : ofNat n = ⟨n, h⟩ := ext' (ofNat_val_of_lt h)
theorem ofNat_zero : ofNat 0 = 0 := rfl
theorem ofNat_one : ofNat 1 = 1 := rfl

theorem ofNat_inj {a b : Nat} (ha : a < 2^8) (hb : b < 2^8) (h : ofNat a = ofNat b) : a = b := by
  have := congrArg GF8.val h
  rwa [ofNat_val_of_lt ha, ofNat_val_of_lt hb] at this

theorem ofNat_eq_zero_iff {a : Nat} (ha : a < 2^8) : ofNat a = 0 ↔ a = 0 :=
  ⟨fun h => ofNat_inj ha (by norm_num) (by rw [h]; rfl), fun h => by subst h; rfl⟩

theorem ofNat_xor {a b : Nat} (ha : a < 2^8) (hb : b < 2^8) :
    ofNat (a ^^^ b) = ofNat a + ofNat b := by
  apply ext'
  rw [val_add, ofNat_val_of_lt ha, ofNat_val_of_lt hb, ofNat_val_of_lt (Nat.xor_lt_two_pow ha hb)]

theorem ofNat_mul {a b : Nat} (ha : a < 2^8) (hb : b < 2^8) :
    ofNat (gf8Mul a b) = ofNat a * ofNat b := by
  apply ext'
  rw [val_mul, ofNat_val_of_lt ha, ofNat_val_of_lt hb, ofNat_val_of_lt (gf8Mul_lt ha b)]

theorem gf8Pow_val (a : GF8) (n : Nat) : gf8Pow a.val n = (a ^ n).val := by
  induction n with
  | zero => rfl
  | succ n ih => rw [gf8Pow, ih, pow_succ']; rfl

theorem gf8Inv_val (a : GF8) : gf8Inv a.val = (a⁻¹).val := by
  unfold gf8Inv
  by_cases h : a.val = 0
  · have : a = 0 := ext' h
    subst this
    simp
  · have : (a.val == 0) = false := by simpa using h
    rw [this, inv_eq_pow, ← gf8Pow_val]
    rfl

theorem gf8Inv_lt {a : Nat} (ha : a < 2^8) : gf8Inv a < 2^8 := by
  have := gf8Inv_val ⟨a, ha⟩
  simp only at this
  rw [this]; exact GF8.lt _

theorem ofNat_inv {a : Nat} (ha : a < 2^8) : ofNat (gf8Inv a) = (ofNat a)⁻¹ := by
  apply ext'
  rw [ofNat_val_of_lt (gf8Inv_lt ha), ofNat_eq_mk ha]
  exact gf8Inv_val ⟨a, ha⟩

theorem gf8Pow_lt {a : Nat} (ha : a < 2^8) (n : Nat) : gf8Pow a n < 2^8 := by
  have := gf8Pow_val ⟨a, ha⟩ n
  simp only at this
  rw [this]; exact GF8.lt _

end GF8

/-! ### `gf8Invert` — Gauss–Jordan on lists of rows -/

/-- entry `(i, j)` of a list of rows. -/
def ent (x : List (List Nat)) (i j : Nat) : Nat := (x.getD i []).getD j 0

/-- an `n × n` list of rows with byte entries. -/
def WF (n : Nat) (x : List (List Nat)) : Prop :=
  x.length = n ∧ ∀ r ∈ x, r.length = n ∧ ∀ v ∈ r, v < 2^8

theorem WF.row {n : Nat} {x : List (List Nat)} (h : WF n x) {i : Nat} (hi : i < n) :
    (x.getD i []).length = n ∧ ∀ v ∈ x.getD i [], v < 2^8 := by
  have hi' : i < x.length := by rw [h.1]; exact hi
  rw [getD_eq_getElem' hi']
  exact h.2 _ (List.getElem_mem hi')

theorem WF.ent_lt {n : Nat} {x : List (List Nat)} (h : WF n x) {i : Nat} (hi : i < n) (j : Nat) :
    ent x i j < 2^8 := by
  unfold ent
  exact getD_lt (by simpa using (h.row hi).2) j

def identL (n : Nat) : List (List Nat) :=
  (List.range n).map fun i => (List.range n).map fun j => if i == j then 1 else 0

def swL (x : List (List Nat)) (c p : Nat) : List (List Nat) :=
  (x.set c (x.getD p [])).set p (x.getD c [])

def scaleL (x : List (List Nat)) (c d : Nat) : List (List Nat) :=
  x.set c ((x.getD c []).map (gf8Mul · d))

def elimL (c : Nat) (x : List (List Nat)) (xc : List Nat) (coef : Nat → Nat) : List (List Nat) :=
  x.zipIdx.map fun (row, r) =>
    if r == c then row else List.zipWith (fun v w => v ^^^ gf8Mul (coef r) w) row xc

/-- the result of one column step, given the pivot row `p`. -/
def stepL (c p : Nat) (a b : List (List Nat)) : List (List Nat) × List (List Nat) :=
  let a1 := if p == c then a else swL a c p
  let b1 := if p == c then b else swL b c p
  let d := gf8Inv (ent a1 c c)
  let a2 := scaleL a1 c d
  let b2 := scaleL b1 c d
  (elimL c a2 (a2.getD c []) (fun r => ent a2 r c), elimL c b2 (b2.getD c []) (fun r => ent a2 r c))

def pivotL (n c : Nat) (a : List (List Nat)) : Option Nat :=
  ((List.range n).filter fun r => r ≥ c && (a.getD r []).getD c 0 != 0).head?

def gf8Step (n : Nat) (st : Option (List (List Nat) × List (List Nat))) (c : Nat) :
    Option (List (List Nat) × List (List Nat)) :=
  match st with
  | none => none
  | some (a, b) =>
    match pivotL n c a with
    | none => none
    | some p => some (stepL c p a b)

theorem gf8Invert_eq (n : Nat) (rows : List (List Nat)) :
    gf8Invert n rows = ((List.range n).foldl (gf8Step n) (some (rows, identL n))).map (·.2) := rfl

/-! #### entries of the row operations -/

theorem ent_set (x : List (List Nat)) (c : Nat) (row : List Nat) (i j : Nat) (hc : c < x.length) :
    ent (x.set c row) i j = if i = c then row.getD j 0 else ent x i j := by
  unfold ent
  rw [getD_set]
  by_cases h : c = i
  · subst h; rw [if_pos ⟨rfl, hc⟩, if_pos rfl]
  · rw [if_neg (by intro h'; exact h h'.1), if_neg (by intro h'; exact h h'.symm)]

theorem WF.set {n : Nat} {x : List (List Nat)} (h : WF n x) (c : Nat) {row : List Nat}
    (hr : row.length = n ∧ ∀ v ∈ row, v < 2^8) : WF n (x.set c row) := by
  refine ⟨by rw [List.length_set]; exact h.1, ?_⟩
  intro r hr'
  rcases List.mem_or_eq_of_mem_set hr' with h1 | h1
  · exact h.2 r h1
  · rw [h1]; exact hr

theorem ent_swL {n : Nat} {x : List (List Nat)} (h : WF n x) {c p : Nat} (hc : c < n) (hp : p < n)
    (i j : Nat) :
    ent (swL x c p) i j = if i = p then ent x c j else if i = c then ent x p j else ent x i j := by
  unfold swL
  rw [ent_set _ _ _ _ _ (by rw [List.length_set, h.1]; exact hp)]
  split
  · rfl
  · rw [ent_set _ _ _ _ _ (by rw [h.1]; exact hc)]
    split <;> rfl

theorem WF.swL {n : Nat} {x : List (List Nat)} (h : WF n x) {c p : Nat} (hc : c < n) (hp : p < n) :
    WF n (swL x c p) := (h.set c (h.row hp)).set p (h.row hc)

theorem ent_scaleL {n : Nat} {x : List (List Nat)} (h : WF n x) {c : Nat} (hc : c < n) (d : Nat)
    (i : Nat) {j : Nat} (hj : j < n) :
    ent (scaleL x c d) i j = if i = c then gf8Mul (ent x c j) d else ent x i j := by
  unfold scaleL
  rw [ent_set _ _ _ _ _ (by rw [h.1]; exact hc)]
  split
  · unfold ent
    rw [rs_getD_map' _ _ 0 _ (by rw [(h.row hc).1]; exact hj)]
  · rfl

theorem WF.scaleL {n : Nat} {x : List (List Nat)} (h : WF n x) {c : Nat} (hc : c < n) (d : Nat) :
    WF n (scaleL x c d) := by
  apply h.set c
  refine ⟨by rw [List.length_map, (h.row hc).1], ?_⟩
  intro v hv
  obtain ⟨w, hw, rfl⟩ := List.mem_map.mp hv
  exact gf8Mul_lt ((h.row hc).2 w hw) d

theorem elimL_getD {n : Nat} {x : List (List Nat)} (h : WF n x) (c : Nat) (xc : List Nat)
    (coef : Nat → Nat) {i : Nat} (hi : i < n) :
    (elimL c x xc coef).getD i [] =
      if i = c then x.getD i []
      else List.zipWith (fun v w => v ^^^ gf8Mul (coef i) w) (x.getD i []) xc := by
  have hi' : i < x.length := by rw [h.1]; exact hi
  unfold elimL
  rw [getD_eq_getElem' (by simpa using hi'), List.getElem_map, List.getElem_zipIdx,
    getD_eq_getElem' hi']
  simp only [Nat.zero_add, beq_iff_eq]

theorem ent_elimL {n : Nat} {x : List (List Nat)} (h : WF n x) (c : Nat) {xc : List Nat}
    (hxc : xc.length = n) (coef : Nat → Nat) {i j : Nat} (hi : i < n) (hj : j < n) :
    ent (elimL c x xc coef) i j =
      if i = c then ent x i j else ent x i j ^^^ gf8Mul (coef i) (xc.getD j 0) := by
  unfold ent
  rw [elimL_getD h c xc coef hi]
  split
  · rfl
  · exact zipWith_getD _ (by rw [(h.row hi).1]; exact hj) (by rw [hxc]; exact hj)

theorem elimL_length (c : Nat) (x : List (List Nat)) (xc : List Nat) (coef : Nat → Nat) :
    (elimL c x xc coef).length = x.length := by simp [elimL]

theorem WF.elimL {n : Nat} {x : List (List Nat)} (h : WF n x) (c : Nat) {xc : List Nat}
    (hxc : xc.length = n ∧ ∀ v ∈ xc, v < 2^8) {coef : Nat → Nat}
    (hcoef : ∀ i, i < n → coef i < 2^8) : WF n (elimL c x xc coef) := by
  refine ⟨by rw [elimL_length, h.1], ?_⟩
  intro r hr
  obtain ⟨i, hi, rfl⟩ := List.mem_iff_getElem.mp hr
  have hi' : i < n := by rw [elimL_length, h.1] at hi; exact hi
  rw [← getD_eq_getElem' (d := []) hi, elimL_getD h c xc coef hi']
  split
  · exact h.row hi'
  · obtain ⟨r1, r2⟩ := h.row hi'
    refine ⟨by rw [List.length_zipWith, r1, hxc.1]; simp, ?_⟩
    intro v hv
    obtain ⟨a, ha, rfl⟩ := List.mem_iff_getElem.mp hv
    rw [List.getElem_zipWith]
    exact Nat.xor_lt_two_pow (r2 _ (List.getElem_mem _))
      (gf8Mul_lt (hcoef i hi') _)

/-! #### the matrix view -/

/-- the matrix over `GF8` with the same entries. -/
def LM {n : Nat} (x : List (List Nat)) : Matrix (Fin n) (Fin n) GF8 :=
  fun i j => GF8.ofNat (ent x i.val j.val)

theorem LM_identL (n : Nat) : LM (n := n) (identL n) = 1 := by
  funext i j
  unfold LM ent identL
  rw [rs_getD_map' _ _ 0 _ (by simp), rs_getD_map' _ _ 0 _ (by simp),
    getD_eq_getElem' (by simp), getD_eq_getElem' (by simp),
    Matrix.one_apply]
  simp only [List.getElem_range, beq_iff_eq, Fin.ext_iff]
  split <;> rfl

theorem WF_identL (n : Nat) : WF n (identL n) := by
  refine ⟨by simp [identL], ?_⟩
  intro r hr
  obtain ⟨i, _, rfl⟩ := List.mem_map.mp hr
  refine ⟨by simp, ?_⟩
  intro v hv
  obtain ⟨j, _, rfl⟩ := List.mem_map.mp hv
  split <;> norm_num

theorem LM_swap {n : Nat} {x : List (List Nat)} (h : WF n x) (c p : Fin n) :
    LM (n := n) (if p.val == c.val then x else swL x c.val p.val) = GJ.swapR (LM x) c p := by
  funext i j
  unfold LM GJ.swapR
  by_cases hpc : p.val = c.val
  · have : p = c := Fin.ext hpc
    subst this
    simp only [beq_self_eq_true, if_true]
    split
    · rename_i h1; rw [h1]
    · rfl
  · have hne : (p.val == c.val) = false := by simpa using hpc
    rw [hne]
    simp only [Bool.false_eq_true, if_false]
    rw [ent_swL h c.isLt p.isLt]
    by_cases h1 : i = c
    · subst h1
      rw [if_pos rfl, if_neg (by intro h2; exact hpc h2.symm), if_pos rfl]
    · have h1' : ¬ i.val = c.val := fun h2 => h1 (Fin.ext h2)
      rw [if_neg h1]
      by_cases h2 : i = p
      · subst h2; rw [if_pos rfl, if_pos rfl]
      · have h2' : ¬ i.val = p.val := fun h3 => h2 (Fin.ext h3)
        rw [if_neg h2, if_neg h2', if_neg h1']

theorem WF_swap {n : Nat} {x : List (List Nat)} (h : WF n x) (c p : Fin n) :
    WF n (if p.val == c.val then x else swL x c.val p.val) := by
  split
  · exact h
  · exact h.swL c.isLt p.isLt

theorem LM_scaleL {n : Nat} {x : List (List Nat)} (h : WF n x) (c : Fin n) {d : Nat}
    (hd : d < 2^8) : LM (n := n) (scaleL x c.val d) = GJ.scaleR (LM x) c (GF8.ofNat d) := by
  funext i j
  unfold LM GJ.scaleR
  rw [ent_scaleL h c.isLt d i.val j.isLt]
  by_cases h1 : i = c
  · subst h1
    rw [if_pos rfl, if_pos rfl, GF8.ofNat_mul (h.ent_lt i.isLt _) hd]
  · have h1' : ¬ i.val = c.val := fun h2 => h1 (Fin.ext h2)
    rw [if_neg h1, if_neg h1']

theorem LM_elimL {n : Nat} {x : List (List Nat)} (h : WF n x) (c : Fin n) {coef : Nat → Nat}
    (hcoef : ∀ i, i < n → coef i < 2^8) :
    LM (n := n) (elimL c.val x (x.getD c.val []) coef) =
      GJ.elimR (LM x) c (fun i => GF8.ofNat (coef i.val)) := by
  funext i j
  unfold LM GJ.elimR
  rw [ent_elimL h c.val (h.row c.isLt).1 coef i.isLt j.isLt]
  by_cases h1 : i = c
  · subst h1
    rw [if_pos rfl, if_pos rfl]
  · have h1' : ¬ i.val = c.val := fun h2 => h1 (Fin.ext h2)
    rw [if_neg h1, if_neg h1']
    have hx : (x.getD c.val []).getD j.val 0 = ent x c.val j.val := rfl
    rw [hx, GF8.ofNat_xor (h.ent_lt i.isLt _) (gf8Mul_lt (hcoef i.val i.isLt) _),
      GF8.ofNat_mul (hcoef i.val i.isLt) (h.ent_lt c.isLt _), mul_comm]

/-- one column step on lists is `GJ.stepR` on matrices. -/
theorem stepL_spec {n : Nat} {a b : List (List Nat)} (ha : WF n a) (hb : WF n b) (c p : Fin n) :
    WF n (stepL c.val p.val a b).1 ∧ WF n (stepL c.val p.val a b).2 ∧
    LM (n := n) (stepL c.val p.val a b).1 = GJ.stepR (LM a) (LM a) c p ∧
    LM (n := n) (stepL c.val p.val a b).2 = GJ.stepR (LM a) (LM b) c p := by
  have wa1 := WF_swap ha c p
  have wb1 := WF_swap hb c p
  have ea1 := LM_swap ha c p
  have eb1 := LM_swap hb c p
  unfold stepL
  simp only
  generalize (if p.val == c.val then a else swL a c.val p.val) = a1 at *
  generalize (if p.val == c.val then b else swL b c.val p.val) = b1 at *
  have hd : gf8Inv (ent a1 c.val c.val) < 2^8 := GF8.gf8Inv_lt (wa1.ent_lt c.isLt _)
  have hdinv : GF8.ofNat (gf8Inv (ent a1 c.val c.val)) = (GJ.swapR (LM a) c p c c)⁻¹ := by
    rw [GF8.ofNat_inv (wa1.ent_lt c.isLt _), ← ea1]; rfl
  have wa2 := wa1.scaleL c.isLt (gf8Inv (ent a1 c.val c.val))
  have wb2 := wb1.scaleL c.isLt (gf8Inv (ent a1 c.val c.val))
  have ea2 := LM_scaleL wa1 c hd
  have eb2 := LM_scaleL wb1 c hd
  rw [ea1, hdinv] at ea2
  rw [eb1, hdinv] at eb2
  generalize scaleL a1 c.val (gf8Inv (ent a1 c.val c.val)) = a2 at *
  generalize scaleL b1 c.val (gf8Inv (ent a1 c.val c.val)) = b2 at *
  have hcoef : ∀ i, i < n → ent a2 i c.val < 2^8 := fun i hi => wa2.ent_lt hi _
  have hcolf : (fun i : Fin n => GF8.ofNat (ent a2 i.val c.val)) =
      fun i => GJ.scaleR (GJ.swapR (LM a) c p) c (GJ.swapR (LM a) c p c c)⁻¹ i c := by
    funext i; rw [← ea2]; rfl
  refine ⟨wa2.elimL c.val (wa2.row c.isLt) hcoef, wb2.elimL c.val (wb2.row c.isLt) hcoef, ?_, ?_⟩
  · rw [LM_elimL wa2 c hcoef, hcolf, ea2]; rfl
  · rw [LM_elimL wb2 c hcoef, hcolf, eb2]; rfl

theorem pivotL_some {n c p : Nat} {a : List (List Nat)} (h : pivotL n c a = some p) :
    p < n ∧ c ≤ p ∧ ent a p c ≠ 0 := by
  have := List.mem_of_head? h
  rw [List.mem_filter] at this
  obtain ⟨h1, h2⟩ := this
  simp only [ge_iff_le, Bool.and_eq_true, decide_eq_true_eq, bne_iff_ne, ne_eq] at h2
  exact ⟨by simpa using h1, h2.1, h2.2⟩

/-- invariant of the elimination loop. -/
structure LInv {n : Nat} (A0 : Matrix (Fin n) (Fin n) GF8) (t : Nat)
    (S : List (List Nat) × List (List Nat)) : Prop where
  wa : WF n S.1
  wb : WF n S.2
  mul : LM S.2 * A0 = LM S.1
  cols : ∀ c' : Fin n, c'.val < t → ∀ r, LM (n := n) S.1 r c' = if r = c' then 1 else 0

theorem gf8Step_inv {n : Nat} {A0 : Matrix (Fin n) (Fin n) GF8} {S S' : _} {c : Nat} (hc : c < n)
    (hinv : LInv A0 c S) (h : gf8Step n (some S) c = some S') : LInv A0 (c + 1) S' := by
  obtain ⟨a, b⟩ := S
  unfold gf8Step at h
  simp only at h
  cases hp : pivotL n c a with
  | none => rw [hp] at h; cases h
  | some p =>
    rw [hp] at h
    simp only [Option.some.injEq] at h
    subst h
    obtain ⟨hpn, hcp, hne⟩ := pivotL_some hp
    obtain ⟨w1, w2, e1, e2⟩ := stepL_spec hinv.wa hinv.wb ⟨c, hc⟩ ⟨p, hpn⟩
    refine ⟨w1, w2, ?_, ?_⟩
    · rw [e1, e2, GJ.stepR_mul, hinv.mul]
    · intro c' hc' r
      rw [e1]
      apply GJ.unitCols_step (LM a) ⟨c, hc⟩ ⟨p, hpn⟩ (Fin.le_def.mpr hcp)
      · intro h0
        apply hne
        exact (GF8.ofNat_eq_zero_iff (hinv.wa.ent_lt hpn _)).mp h0
      · intro c'' hlt r'; exact hinv.cols c'' hlt r'
      · exact Fin.le_def.mpr (by simp only; omega)

theorem gf8Step_none (n c : Nat) : gf8Step n none c = none := rfl

theorem gf8Loop_inv {n : Nat} {A0 : Matrix (Fin n) (Fin n) GF8} {S0 : _} (h0 : LInv A0 0 S0) :
    ∀ t, t ≤ n → ∀ S, (List.range t).foldl (gf8Step n) (some S0) = some S → LInv A0 t S := by
  intro t
  induction t with
  | zero =>
    intro _ S h
    simp only [List.range_zero, List.foldl_nil, Option.some.injEq] at h
    subst h; exact h0
  | succ t ih =>
    intro ht S h
    rw [List.range_succ, List.foldl_append, List.foldl_cons, List.foldl_nil] at h
    cases hprev : (List.range t).foldl (gf8Step n) (some S0) with
    | none => rw [hprev, gf8Step_none] at h; cases h
    | some S1 =>
      rw [hprev] at h
      exact gf8Step_inv (by omega) (ih (by omega) S1 hprev) h

/-- soundness of the reference inversion: a returned matrix is a (well-formed) left inverse. -/
theorem gf8Invert_sound {n : Nat} {rows inv : List (List Nat)} (hr : WF n rows)
    (h : gf8Invert n rows = some inv) :
    WF n inv ∧ LM (n := n) inv * LM rows = 1 := by
  rw [gf8Invert_eq, Option.map_eq_some_iff] at h
  obtain ⟨S, hS, rfl⟩ := h
  have h0 : LInv (LM (n := n) rows) 0 (rows, identL n) :=
    ⟨hr, WF_identL n, by rw [LM_identL, one_mul], fun c' hc' => absurd hc' (by omega)⟩
  have hfin := gf8Loop_inv h0 n (Nat.le_refl n) S hS
  refine ⟨hfin.wb, ?_⟩
  rw [hfin.mul]
  ext r c
  rw [hfin.cols c c.isLt r, Matrix.one_apply]

/-! #### completeness: on an invertible matrix the pivot search never fails -/

theorem pivotL_exists {n c : Nat} {a : List (List Nat)} {r : Nat} (hr : r < n) (hcr : c ≤ r)
    (hne : ent a r c ≠ 0) : ∃ p, pivotL n c a = some p := by
  have hmem : r ∈ (List.range n).filter fun r => r ≥ c && (a.getD r []).getD c 0 != 0 := by
    rw [List.mem_filter]
    refine ⟨by simpa using hr, ?_⟩
    simp only [ge_iff_le, Bool.and_eq_true, decide_eq_true_eq, bne_iff_ne, ne_eq]
    exact ⟨hcr, hne⟩
  unfold pivotL
  cases hl : (List.range n).filter fun r => r ≥ c && (a.getD r []).getD c 0 != 0 with
  | nil => rw [hl] at hmem; cases hmem
  | cons p l => exact ⟨p, rfl⟩

theorem gf8Step_progress {n : Nat} {A0 : Matrix (Fin n) (Fin n) GF8} {S : _} {c : Nat} (hc : c < n)
    (hinv : LInv A0 c S) (hdet : (LM (n := n) S.1).det ≠ 0) :
    ∃ S', gf8Step n (some S) c = some S' ∧ (LM (n := n) S'.1).det ≠ 0 := by
  obtain ⟨a, b⟩ := S
  obtain ⟨r, hr1, hr2⟩ := GJ.pivot_exists (LM a) hdet ⟨c, hc⟩
    (fun c' hlt r => hinv.cols c' hlt r)
  have hne : ent a r.val c ≠ 0 := by
    intro h0
    apply hr2
    show GF8.ofNat (ent a r.val c) = 0
    rw [h0]; rfl
  obtain ⟨p, hp⟩ := pivotL_exists r.isLt (Fin.le_def.mp hr1) hne
  obtain ⟨hpn, hcp, hpne⟩ := pivotL_some hp
  refine ⟨stepL c p a b, by unfold gf8Step; simp only [hp], ?_⟩
  obtain ⟨_, _, e1, _⟩ := stepL_spec hinv.wa hinv.wb ⟨c, hc⟩ ⟨p, hpn⟩
  rw [e1]
  unfold GJ.stepR
  apply GJ.det_elimR
  apply GJ.det_scaleR
  · apply inv_ne_zero
    have : GJ.swapR (LM (n := n) a) ⟨c, hc⟩ ⟨p, hpn⟩ ⟨c, hc⟩ ⟨c, hc⟩ = LM a ⟨p, hpn⟩ ⟨c, hc⟩ := by
      simp [GJ.swapR]
    rw [this]
    intro h0
    exact hpne ((GF8.ofNat_eq_zero_iff (hinv.wa.ent_lt hpn _)).mp h0)
  · exact GJ.det_swapR _ _ _ hdet

theorem gf8Loop_progress {n : Nat} {A0 : Matrix (Fin n) (Fin n) GF8} {S0 : _} (h0 : LInv A0 0 S0)
    (hdet : (LM (n := n) S0.1).det ≠ 0) :
    ∀ t, t ≤ n → ∃ S, (List.range t).foldl (gf8Step n) (some S0) = some S ∧ LInv A0 t S ∧
      (LM (n := n) S.1).det ≠ 0 := by
  intro t
  induction t with
  | zero => intro _; exact ⟨S0, rfl, h0, hdet⟩
  | succ t ih =>
    intro ht
    obtain ⟨S1, h1, i1, d1⟩ := ih (by omega)
    obtain ⟨S2, h2, d2⟩ := gf8Step_progress (by omega : t < n) i1 d1
    refine ⟨S2, ?_, gf8Step_inv (by omega) i1 h2, d2⟩
    rw [List.range_succ, List.foldl_append, h1]
    exact h2

/-- completeness of the reference inversion. -/
theorem gf8Invert_complete {n : Nat} {rows : List (List Nat)} (hr : WF n rows)
    (hdet : (LM (n := n) rows).det ≠ 0) : (gf8Invert n rows).isSome := by
  have h0 : LInv (LM (n := n) rows) 0 (rows, identL n) :=
    ⟨hr, WF_identL n, by rw [LM_identL, one_mul], fun c' hc' => absurd hc' (by omega)⟩
  obtain ⟨S, hS, _, _⟩ := gf8Loop_progress h0 hdet n (Nat.le_refl n)
  rw [gf8Invert_eq, hS]
  rfl

/-- the optional completeness hypothesis of `LecProofs.IsaLCorrect` holds for `gf8Invert`. -/
theorem gf8_invertComplete {P : IsaPrims} (hinv : P.invert = gf8Invert) (k : Nat) :
    IsaInvertComplete P k GF8.ofNat := by
  intro rows hl hr ⟨N, hN⟩
  rw [hinv]
  have hw : WF k rows := ⟨hl, fun r hr' => ⟨(hr r hr').1, fun v hv => by
    have := (hr r hr').2 v hv; norm_num; exact this⟩⟩
  apply gf8Invert_complete hw
  apply Matrix.det_ne_zero_of_left_inverse (B := Matrix.of fun i l : Fin k => N i.val l.val)
  funext i j
  rw [Matrix.mul_apply, Matrix.one_apply]
  have := hN i.val j.val i.isLt j.isLt
  rw [Finset.sum_range] at this
  simp only [Matrix.of_apply, Fin.ext_iff]
  exact this

/-! ### the reference primitives satisfy the contract -/

theorem lt256 {a : Nat} : a < 256 ↔ a < 2^8 := by norm_num

/-- the inversion clause of `IsaPrimsOK` for `gf8Invert`. -/
theorem gf8_inv_ok (k : Nat) (rows inv : List (List Nat)) (hl : rows.length = k)
    (hr : ∀ r ∈ rows, r.length = k ∧ ∀ x ∈ r, x < 256) (h : gf8Invert k rows = some inv) :
    inv.length = k ∧ (∀ r ∈ inv, r.length = k ∧ ∀ x ∈ r, x < 256) ∧
    ∀ i j, i < k → j < k →
      ∑ l ∈ Finset.range k, GF8.ofNat ((inv.getD i []).getD l 0) *
        GF8.ofNat ((rows.getD l []).getD j 0) = if i = j then 1 else 0 := by
  have hw : WF k rows := ⟨hl, fun r hr' => ⟨(hr r hr').1, fun v hv => lt256.mp ((hr r hr').2 v hv)⟩⟩
  obtain ⟨wi, hmul⟩ := gf8Invert_sound hw h
  refine ⟨wi.1, fun r hr' => ⟨(wi.2 r hr').1, fun v hv => lt256.mpr ((wi.2 r hr').2 v hv)⟩, ?_⟩
  intro i j hi hj
  rw [Finset.sum_range]
  have := congrFun (congrFun hmul ⟨i, hi⟩) ⟨j, hj⟩
  rw [Matrix.mul_apply, Matrix.one_apply] at this
  simp only [Fin.mk.injEq] at this
  exact this

/-- any primitives record built from `gf8Mul`, `gf8Invert` and a generator with identity top and
    byte-valued parity rows satisfies the contract over `GF8`. -/
theorem gf8_primsOK_of {P : IsaPrims} {k m : Nat} (hmul : P.mul = gf8Mul)
    (hinv : P.invert = gf8Invert) (par : Nat → Nat → Nat)
    (hgen : P.genMatrix k m =
      identL k ++ (List.range m).map fun i => (List.range k).map (par i))
    (hpar : ∀ i j, i < m → j < k → par i j < 256) : IsaPrimsOK P k m GF8.ofNat where
  inj := fun a b ha hb h => GF8.ofNat_inj (lt256.mp ha) (lt256.mp hb) h
  map_zero := rfl
  map_one := rfl
  map_xor := fun a b ha hb => GF8.ofNat_xor (lt256.mp ha) (lt256.mp hb)
  mul_lt := fun a b ha _ => by rw [hmul]; exact lt256.mpr (gf8Mul_lt (lt256.mp ha) b)
  map_mul := fun a b ha hb => by rw [hmul]; exact GF8.ofNat_mul (lt256.mp ha) (lt256.mp hb)
  gen_len := by rw [hgen]; simp [identL]
  gen_row_len := by
    intro row hrow
    rw [hgen, List.mem_append] at hrow
    rcases hrow with h | h
    · exact ((WF_identL k).2 row h).1
    · obtain ⟨i, _, rfl⟩ := List.mem_map.mp h
      simp
  gen_lt := by
    intro row hrow x hx
    rw [hgen, List.mem_append] at hrow
    rcases hrow with h | h
    · exact lt256.mpr (((WF_identL k).2 row h).2 x hx)
    · obtain ⟨i, hi, rfl⟩ := List.mem_map.mp h
      obtain ⟨j, hj, rfl⟩ := List.mem_map.mp hx
      exact hpar i j (by simpa using hi) (by simpa using hj)
  gen_ident := by
    intro i j hi hj
    rw [hgen, getD_append_left' (by simp [identL]; exact hi)]
    unfold identL
    rw [rs_getD_map' _ _ 0 _ (by simpa using hi), rs_getD_map' _ _ 0 _ (by simpa using hj),
      getD_eq_getElem' (by simpa using hi), getD_eq_getElem' (by simpa using hj)]
    simp only [List.getElem_range, beq_iff_eq]
  inv_ok := by
    intro rows inv hl hr h
    rw [hinv] at h
    exact gf8_inv_ok k rows inv hl hr h

/-- `gf_gen_rs_matrix` reference primitives satisfy the contract (every `k`, `m`). -/
theorem gf8_primsOK_vand (k m : Nat) : IsaPrimsOK gf8PrimsVand k m GF8.ofNat :=
  gf8_primsOK_of rfl rfl (fun i j => gf8Pow (gf8Pow 2 i) j) rfl
    (fun i j _ _ => lt256.mpr (GF8.gf8Pow_lt (GF8.gf8Pow_lt (by norm_num) i) j))

/-- `gf_gen_cauchy1_matrix` reference primitives satisfy the contract for `k + m ≤ 256`. -/
theorem gf8_primsOK_cauchy {k m : Nat} (hkm : k + m ≤ 256) :
    IsaPrimsOK gf8PrimsCauchy k m GF8.ofNat :=
  gf8_primsOK_of rfl rfl (fun i j => gf8Inv ((k + i) ^^^ j)) rfl
    (fun i j hi hj => lt256.mpr (GF8.gf8Inv_lt
      (Nat.xor_lt_two_pow (n := 8) (by omega) (by omega))))

/-- hence all contract theorems of `LecProofs.IsaLCorrect` apply to the reference library. -/
theorem gf8_cauchy_contracts {k m : Nat} (hkm : k + m ≤ 256) (ver : Nat) :
    EncodeOK (isaBackend gf8PrimsCauchy k m ver) k m ∧
    DecodeSound (isaBackend gf8PrimsCauchy k m ver) k m (fun _ => True) ∧
    DecodeOK (isaBackend gf8PrimsCauchy k m ver) k m
      (fun missing => missing.length ≤ m ∧
        (gf8Invert k (availRows gf8PrimsCauchy k m missing)).isSome) (fun _ => True) :=
  ⟨isa_encodeOK (gf8_primsOK_cauchy hkm) ver, isa_decodeSound (gf8_primsOK_cauchy hkm) ver,
    isa_decodeOK (gf8_primsOK_cauchy hkm) ver⟩

theorem gf8_vand_contracts (k m ver : Nat) :
    EncodeOK (isaBackend gf8PrimsVand k m ver) k m ∧
    DecodeSound (isaBackend gf8PrimsVand k m ver) k m (fun _ => True) ∧
    DecodeOK (isaBackend gf8PrimsVand k m ver) k m
      (fun missing => missing.length ≤ m ∧
        (gf8Invert k (availRows gf8PrimsVand k m missing)).isSome) (fun _ => True) :=
  ⟨isa_encodeOK (gf8_primsOK_vand k m) ver, isa_decodeSound (gf8_primsOK_vand k m) ver,
    isa_decodeOK (gf8_primsOK_vand k m) ver⟩

end IsaL
end Lec

#print axioms Lec.IsaL.GF8.instField
#print axioms Lec.IsaL.gf8Invert_sound
#print axioms Lec.IsaL.gf8_primsOK_vand
#print axioms Lec.IsaL.gf8_primsOK_cauchy
#print axioms Lec.IsaL.gf8_cauchy_contracts
#print axioms Lec.IsaL.gf8_invertComplete
