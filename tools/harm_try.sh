#!/bin/bash
# harm_try.sh <nn> <check ids...> — run checks against a behaviour-preserving rewrite /tmp/harm_<nn>/patch.diff on copies; every VIOLATION is a false alarm to analyse
N="$1"; shift
cd /verif
LINES_SHOWN=4 tools/seed_try.sh /tmp/harm_$N/patch.diff H$N "$@" >> build/harm.log 2>&1
