#!/usr/bin/env python3
"""
Translator for the synchronisation skeleton (property C18): for the functions of
src/erasurecode.c and src/builtin/rs_vand/rs_galois.c that touch shared state, the ordered list
of accesses to the shared variables and calls to lock-requiring helpers, each with the locks held
at that point (computed block-structurally: a block that ends in return/goto does not leak its
lock state to the code after it).  Output: lean/LecGen/SyncSkeleton.lean.
"""
import os, re, sys, json
HERE = os.path.dirname(os.path.abspath(__file__)); VERIF = os.path.dirname(HERE)
REPO = os.environ.get("VERIF_REPO", "/repo")
OUT = os.path.join(VERIF, "lean", "LecGen", "SyncSkeleton.lean")

def strip_comments(s):
    s = re.sub(r"/\*.*?\*/", lambda m: " " * len(m.group(0)) if "\n" not in m.group(0) else "\n" * m.group(0).count("\n"), s, flags=re.S)
    s = re.sub(r"//[^\n]*", "", s)
    s = re.sub(r'"(\\.|[^"\\])*"', '""', s)
    # dead code
    s = re.sub(r"^[ \t]*#if\s+0\b.*?^[ \t]*#endif", lambda m: "\n" * m.group(0).count("\n"), s, flags=re.S | re.M)
    return s

def functions(src):
    """yield (name, body) for every function definition at top level"""
    out = []
    i = 0
    depth = 0
    n = len(src)
    # find '{' at depth 0 preceded by ')' => function body
    pos = 0
    while pos < n:
        c = src[pos]
        if c == '{':
            if depth == 0:
                # look back for name(...)
                j = pos - 1
                while j >= 0 and src[j].isspace(): j -= 1
                if j >= 0 and src[j] == ')':
                    # match parens backwards
                    d = 0; k = j
                    while k >= 0:
                        if src[k] == ')': d += 1
                        elif src[k] == '(':
                            d -= 1
                            if d == 0: break
                        k -= 1
                    m = re.search(r"(\w+)\s*$", src[:k])
                    name = m.group(1) if m else None
                    # body
                    d2 = 0; e = pos
                    while e < n:
                        if src[e] == '{': d2 += 1
                        elif src[e] == '}':
                            d2 -= 1
                            if d2 == 0: break
                        e += 1
                    if name and name not in ("if", "for", "while", "switch"):
                        out.append((name, src[pos:e + 1]))
                    pos = e + 1
                    continue
            depth += 1
        elif c == '}':
            depth -= 1
        pos += 1
    return out

TOK = re.compile(r"""
   (?P<wr>rwlock_wrlock\s*\(\s*&active_instances_rwlock) |
   (?P<rd>rwlock_rdlock\s*\(\s*&active_instances_rwlock) |
   (?P<un>rwlock_unlock\s*\(\s*&active_instances_rwlock) |
   (?P<ml>pthread_mutex_lock\s*\(\s*&init_mutex) |
   (?P<mu>pthread_mutex_unlock\s*\(\s*&init_mutex) |
   (?P<lw>SLIST_INSERT_HEAD\s*\(\s*&active_instances | SLIST_REMOVE\s*\(\s*&active_instances) |
   (?P<lr>SLIST_FOREACH\s*\([^,]*,\s*&active_instances) |
   (?P<dw>\+\+\s*next_backend_desc | next_backend_desc\s*(?:=(?!=)|\+\+|--)) |
   (?P<dr>next_backend_desc) |
   (?P<iw>->\s*idesc\s*=(?!=)) |
   (?P<ir>->\s*idesc) |
   (?P<cw>init_counter\s*(?:\+\+|--|=(?!=)) | (?:\+\+|--)\s*init_counter) |
   (?P<cr>init_counter) |
   (?P<tw>(?:log_table|ilog_table_begin|ilog_table)\s*=(?!=) | free\s*\(\s*(?:log_table|ilog_table_begin)\s*\) |
          (?:log_table|ilog_table_begin)\s*\[[^\]]*\]\s*=(?!=)) |
   (?P<tr>(?:log_table|ilog_table)\s*\[) |
   (?P<call>\b(?:liberasurecode_backend_instance_lookup|liberasurecode_backend_alloc_desc|liberasurecode_backend_instance_get_by_desc|liberasurecode_backend_instance_register|liberasurecode_backend_instance_unregister|rs_galois_init_tables|rs_galois_deinit_tables)\s*\() |
   (?P<ret>\breturn\b|\bgoto\b) |
   (?P<ob>\{) | (?P<cb>\})
""", re.X)

LOCK_KINDS = ("wr", "rd", "un", "ml", "mu")

def lock_wrappers(src, funcs):
    """Functions and one-line macros that do nothing but one lock operation: a call of such a
    wrapper is that lock operation (a harmless refactoring must not blind the skeleton)."""
    w = {}
    for name, body in funcs:
        kinds = [m.lastgroup for m in TOK.finditer(body) if m.lastgroup not in ("ob", "cb", "ret")]
        if len(kinds) == 1 and kinds[0] in LOCK_KINDS and body.count(";") <= 3:
            w[name] = kinds[0]
    for m in re.finditer(r"^[ \t]*#[ \t]*define[ \t]+(\w+)(?:\([^)]*\))?[ \t]+(.*)$", src, flags=re.M):
        kinds = [t.lastgroup for t in TOK.finditer(m.group(2)) if t.lastgroup not in ("ob", "cb", "ret")]
        if len(kinds) == 1 and kinds[0] in LOCK_KINDS:
            w[m.group(1)] = kinds[0]
    return w

def analyse(name, body, wrappers=None):
    if wrappers:
        # rewrite calls of lock wrappers into the primitive they stand for
        prim = {"wr": "rwlock_wrlock(&active_instances_rwlock", "rd": "rwlock_rdlock(&active_instances_rwlock",
                "un": "rwlock_unlock(&active_instances_rwlock", "ml": "pthread_mutex_lock(&init_mutex", "mu": "pthread_mutex_unlock(&init_mutex"}
        for wn, kind in wrappers.items():
            if wn != name:
                body = re.sub(r"\b%s\b\s*(\(\s*\))?" % re.escape(wn), prim[kind] + ")", body)
    events = []
    rd = wr = mx = False
    stack = []          # (rd, wr, mx) at block entry
    terminated = False
    for m in TOK.finditer(body):
        k = m.lastgroup
        if k == "ob":
            stack.append((rd, wr, mx)); terminated = False
        elif k == "cb":
            if stack:
                saved = stack.pop()
                if terminated:
                    rd, wr, mx = saved
            terminated = False
        elif k == "ret":
            terminated = True
        elif k == "wr": wr = True
        elif k == "rd": rd = True
        elif k == "un": rd = wr = False
        elif k == "ml": mx = True
        elif k == "mu": mx = False
        else:
            var, write = {"lw": ("list", True), "lr": ("list", False), "dw": ("counter", True), "dr": ("counter", False),
                          "iw": ("idesc", True), "ir": ("idesc", False), "cw": ("refcount", True), "cr": ("refcount", False),
                          "tw": ("tables", True), "tr": ("tables", False), "call": ("call", False)}[k]
            callee = ""
            if k == "call":
                callee = re.match(r"\w+", m.group(0)).group(0)
                if callee == name: continue
            events.append((var, write, callee, rd, wr, mx))
            if k != "ret": terminated = False
    return events

def main():
    allf = []
    for rel in ("src/erasurecode.c", "src/builtin/rs_vand/rs_galois.c"):
        p = os.path.join(REPO, rel)
        try:
            src = strip_comments(open(p).read())
        except Exception as e:
            print("gen_sync: cannot read %s: %s" % (rel, e), file=sys.stderr); sys.exit(3)
        funcs = functions(src)
        wrappers = lock_wrappers(src, funcs)
        for name, body in funcs:
            if name in wrappers: continue
            ev = analyse(name, body, wrappers)
            if ev:
                allf.append((rel.split("/")[-1], name, ev))
    must = ["liberasurecode_backend_instance_get_by_desc", "liberasurecode_backend_instance_register",
            "liberasurecode_backend_instance_unregister", "liberasurecode_backend_alloc_desc",
            "rs_galois_init_tables", "rs_galois_deinit_tables"]
    names = [n for _, n, _ in allf]
    for mname in must:
        if mname not in names:
            print("gen_sync: function %s not found any more" % mname, file=sys.stderr); sys.exit(3)
    b = lambda x: "true" if x else "false"
    L = ["/- GENERATED by tools/gen_sync.py from src/erasurecode.c and src/builtin/rs_vand/rs_galois.c — do not edit. -/",
         "namespace LecGen", "",
         "/-- one access to shared state: file, function, variable (list / counter / idesc / refcount / tables / call),",
         "    write?, callee (for calls), and the locks held there: registry lock shared, exclusive, table mutex. -/",
         "structure SyncAccess where",
         "  file : String", "  fn : String", "  var : String", "  write : Bool", "  callee : String",
         "  rd : Bool", "  wr : Bool", "  mx : Bool",
         "deriving Repr, DecidableEq", "",
         "def syncSkeleton : List SyncAccess := ["]
    rows = []
    for f, n, evs in allf:
        for (var, write, callee, rd, wr, mx) in evs:
            rows.append('  ⟨"%s", "%s", "%s", %s, "%s", %s, %s, %s⟩' % (f, n, var, b(write), callee, b(rd), b(wr), b(mx)))
    L.append(",\n".join(rows)); L.append("]"); L.append(""); L.append("end LecGen")
    text = "\n".join(L) + "\n"
    old = open(OUT).read() if os.path.exists(OUT) else None
    if old != text:
        os.makedirs(os.path.dirname(OUT), exist_ok=True)
        open(OUT, "w").write(text)
    print(json.dumps({"SyncSkeleton": {"items": len(rows), "changed": old != text}}))

if __name__ == "__main__":
    main()
