#!/bin/bash
# coverage.sh [tier] [seed] — development aid (not a check): builds the library from /repo's working tree with gcov instrumentation, runs EVERY
# correspondence suite of the harness once, and lists the library lines no suite executed (build/cov/uncovered.txt).  Used to find
# dimensions the generators do not reach; the report is reviewed by hand (see DESIGN §9).
set -e
TIER="${1:-0}"; SEED="${2:-0}"
V="$(cd "$(dirname "$0")/.." && pwd)"; REPO="${VERIF_REPO:-/repo}"; OUT="$V/build/cov"; H="$V/harness"
rm -rf "$OUT"; mkdir -p "$OUT/inc" "$OUT/o"
[ -f "$REPO/include/config_liberasurecode.h" ] || cp "$H/config_fallback.h" "$OUT/inc/config_liberasurecode.h"
SIMD=$(grep -m1 '^CFLAGS *=' "$REPO/Makefile" 2>/dev/null | tr ' ' '\n' | grep -E '^(-m(mmx|sse[0-9.]*|ssse3|avx2?)|-DINTEL_[A-Z0-9]+|-DARCH_[0-9]+)$' | tr '\n' ' ')
[ -n "$SIMD" ] || SIMD="-msse2 -DINTEL_SSE2 -DARCH_64"
CF="-g -O0 --coverage -fPIC -D_GNU_SOURCE=1 -std=gnu99 -w -DLIBERASURECODE_VERIF $SIMD -I$OUT/inc -I$REPO/include -I$REPO/include/erasurecode -I$REPO/include/xor_codes -I$REPO/include/rs_vand -I$REPO/include/isa_l -I$REPO/include/shss"
S="$REPO/src"
cd "$OUT/o"
gcc $CF -shared -Wl,-soname,libXorcode.so.1 -o "$OUT/libXorcode.so.1" $S/builtin/xor_codes/xor_code.c $S/builtin/xor_codes/xor_hd_code.c
gcc $CF -shared -Wl,-soname,libnullcode.so.1 -o "$OUT/libnullcode.so.1" $S/builtin/null_code/null_code.c
gcc $CF -shared -Wl,-soname,liberasurecode_rs_vand.so.1 -o "$OUT/liberasurecode_rs_vand.so.1" $S/builtin/rs_vand/rs_galois.c $S/builtin/rs_vand/liberasurecode_rs_vand.c
for f in libXorcode libnullcode liberasurecode_rs_vand; do ln -sf $f.so.1 "$OUT/$f.so"; done
LIBSRC="$S/erasurecode.c $S/erasurecode_helpers.c $S/erasurecode_preprocessing.c $S/erasurecode_postprocessing.c $S/utils/chksum/crc32.c $S/utils/chksum/alg_sig.c $S/backends/null/null.c $S/backends/xor/flat_xor_hd.c $S/backends/jerasure/jerasure_rs_vand.c $S/backends/jerasure/jerasure_rs_cauchy.c $S/backends/isa-l/isa_l_common.c $S/backends/isa-l/isa_l_rs_vand.c $S/backends/isa-l/isa_l_rs_cauchy.c $S/backends/rs_vand/liberasurecode_rs_vand.c $S/backends/shss/shss.c $S/backends/phazrio/libphazr.c"
i=0; for src in $LIBSRC; do gcc $CF -c "$src" -o "$OUT/o/m_${i}_$(basename $src .c).o" & i=$((i+1)); done; wait
gcc --coverage -shared -Wl,-soname,liberasurecode.so.1 -o "$OUT/liberasurecode.so.1" "$OUT"/o/m_*.o $S/builtin/rs_vand/rs_galois.c $CF -L"$OUT" -Wl,--no-as-needed -lXorcode -lnullcode -l:liberasurecode_rs_vand.so.1 -Wl,--as-needed -lpthread -lm -lz -ldl -Wl,-rpath,"$OUT"
ln -sf liberasurecode.so.1 "$OUT/liberasurecode.so"
gcc -g -fPIC -std=gnu99 -O1 -shared -Wl,-soname,libisal.so.2 -o "$OUT/libisal.so.2" "$H/isal_ref/isal_ref.c"
gcc -g -std=gnu99 -O1 -DLIBERASURECODE_VERIF -DVERIF_COV -DVERIF_MEMTRACK -w -I$OUT/inc -I$REPO/include -I$REPO/include/erasurecode -I$REPO/include/xor_codes -I$REPO/include/rs_vand -I$REPO/include/isa_l -o "$OUT/drv" "$H"/drv.c "$H"/common.c "$H"/ops.c "$H"/memtrack.c "$H"/suites*.c -L"$OUT" -l:liberasurecode.so.1 -l:libXorcode.so.1 -l:liberasurecode_rs_vand.so.1 -lgcov -lz -ldl -lpthread -Wl,-rpath,"$OUT"
cd "$OUT"
for s in $(grep -o '{ "[a-z0-9]*", suite_' "$H/drv.c" | cut -d'"' -f2); do
  ( VERIF_ISAL=1 LD_LIBRARY_PATH="$OUT" timeout 1800 ./drv $s $SEED $TIER > "$OUT/$s.out" 2> "$OUT/$s.err"; echo "$s exit=$? ops=$(wc -l < $OUT/$s.out)" ) 
done
cd "$OUT/o"
for g in *.gcno; do gcov -b -c "$g" > /dev/null 2>&1 || true; done
python3 - "$OUT" <<'P'
import sys, glob, os, re
out = sys.argv[1]; rep = []
tot = cov = 0
for f in sorted(glob.glob(out + '/o/*.c.gcov')):
    name = os.path.basename(f)[:-5]
    if name in ('jerasure_rs_vand.c', 'jerasure_rs_cauchy.c', 'shss.c', 'libphazr.c', 'alg_sig.c'): continue
    lines = open(f, errors='replace').read().split('\n')
    un = []
    for l in lines:
        m = re.match(r'\s*([^:]+):\s*(\d+):(.*)', l)
        if not m: continue
        c, n, txt = m.group(1).strip(), int(m.group(2)), m.group(3)
        if c == '-': continue
        tot += 1
        if c in ('#####', '====='): un.append((n, txt))
        else: cov += 1
    rep.append('== %s: %d executable lines never run' % (name, len(un)))
    for n, t in un: rep.append('%5d: %s' % (n, t))
rep.insert(0, 'library lines run by at least one suite: %d of %d' % (cov, tot))
open(out + '/uncovered.txt', 'w').write('\n'.join(rep) + '\n')
print(rep[0])
P
