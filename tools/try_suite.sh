#!/bin/bash
# try_suite.sh <seed-dir> <suite> [mode] [seed] — apply seeded/<dir>/patch.diff to /repo, build into build/try, run one suite of
# the harness, print oracle failures and the disagreements with the model, undo.  (development aid)
DIR="$1"; SUITE="$2"; MODE="${3:-asan}"; SEED="${4:-0}"
P=/verif/seeded/$DIR/patch.diff; [ -f /verif/seeded/$DIR/patch_rebased.diff ] && P=/verif/seeded/$DIR/patch_rebased.diff
cd /verif; B=build/try; rm -rf $B; mkdir -p $B
[ "$DIR" != "none" ] && { git -C /repo apply "$P" || exit 1; }
harness/build_lib.sh $B $MODE sse2 >/dev/null 2>&1 && { [ -n "$VERIF_ISAL" ] && harness/build_isal.sh $B $MODE >/dev/null 2>&1; harness/build_drv.sh $B $MODE 2>/dev/null; }
[ "$DIR" != "none" ] && git -C /repo checkout -- .
cd $B
LD_LIBRARY_PATH=. ASAN_OPTIONS=detect_leaks=0:detect_odr_violation=0:abort_on_error=0:exitcode=99 timeout 900 ./drv $SUITE $SEED 0 > out.txt 2> err.txt; echo "exit $?"
grep -c " ## " out.txt; grep "^!ORACLE" out.txt | cut -c1-300 | head -8
grep " ## " out.txt | sed 's/ ## .*//' | /verif/lean/.lake/build/bin/lecdrv > model.txt
grep " ## " out.txt | sed 's/.* ## //' > impl.txt
echo "disagreements: $(diff model.txt impl.txt | grep -c '^<')"
diff model.txt impl.txt | head -6 | cut -c1-200
tail -3 err.txt | cut -c1-200
