#!/bin/bash
# seeds_regress.sh <verif-copy> <repo-copy> [seed-dirs...] — every kept seeded change against the check of its property, on COPIES of
# /verif and /repo (so that the working directories stay free): applies the change to <repo-copy>, runs <verif-copy>/check with
# VERIF_REPO=<repo-copy>, undoes it.  One line per seed.  (all_seeds.sh does the same on /repo itself.)
V="$1"; R="$2"; shift 2
cd "$V" || exit 2
export VERIF_REPO="$R"
LIST="$@"; [ -z "$LIST" ] && LIST=$(ls seeded | sort)
for d in $LIST; do
  ID="${d:0:3}"
  P="$V/seeded/$d/patch.diff"; [ -f "$V/seeded/$d/patch_rebased.diff" ] && P="$V/seeded/$d/patch_rebased.diff"
  if ! git -C "$R" apply "$P" 2>/dev/null; then echo "seed $d: patch does not apply"; continue; fi
  out=$(./check $ID 2>&1 | grep -E "^VIOLATION|^OK|^KNOWN" | head -2 | tr '\n' ' ' | cut -c1-160)
  echo "seed $d -> check $ID: $out"
  git -C "$R" checkout -- .
done
