#!/bin/bash
# round_try.sh <round> <ID> [more check ids] — verify a freshly delivered seeded change in its scratch worktree, then run the property's quick check
# against it on copies; one line each into build/round<round>.log
R="$1"; ID="$2"; shift 2
cd /verif
{ bash tools/verify_seed.sh $ID $R; tools/seed_try.sh /tmp/seed${R}_$ID/patch.diff s${R}$ID $ID "$@"; } >> build/round$R.log 2>&1
