#!/bin/bash
# all_seeds.sh — every kept seeded change against the check of its property (applied to /repo, never committed)
cd /verif
for d in $(ls seeded | sort); do
  tools/run_seed.sh $d 2>&1 | cut -c1-200
done
