#!/usr/bin/env python3
"""
mutants.py — mechanical mutation testing of the checks (a complement to the hand-made seeded changes).

  tools/mutants.py gen [--per-file N] [--seed S]     write build/mutants/index.json (+ one .diff per mutant)
  tools/mutants.py run [--jobs J] [--par P] [--only SUBSTR] [--ids a,b,c] [--limit N]
  tools/mutants.py report                            summary of build/mutants/results.jsonl

A mutant is one small token-level edit of a library source file (relational / arithmetic / logical
operator, integer literal, deleted statement).  For each mutant, in a scratch autotools worktree
under /tmp (never /repo):
  1. build; a mutant that does not compile is `stillborn`;
  2. run the pinned suite (`make test`); a mutant the suite kills is `suite-killed` and not interesting
     (the brief asks for changes that pass the existing tests);
  3. otherwise run the quick correspondence part of every check whose property anchors the file
     (`VERIF_REPO=<worktree> ./check Cxx --no-lean --tag mutN`): `killed` with the list of properties that
     raised a VIOLATION (and whether a concrete failing input was produced), else `survived`.
Survivors are either equivalent mutants (no behavioural change / no property broken) or holes in the
generators; they are triaged by hand and recorded in DESIGN.md.  Results are tool output, not evidence.
"""
import sys, os, re, json, random, subprocess, argparse, shutil, hashlib, time
from concurrent.futures import ThreadPoolExecutor

VERIF = os.path.dirname(os.path.dirname(os.path.abspath(__file__)))
REPO = "/repo"
MDIR = os.path.join(VERIF, "build", "mutants")

FILES = [
    "src/erasurecode.c", "src/erasurecode_helpers.c", "src/erasurecode_preprocessing.c",
    "src/erasurecode_postprocessing.c", "src/builtin/rs_vand/liberasurecode_rs_vand.c",
    "src/builtin/rs_vand/rs_galois.c", "src/backends/rs_vand/liberasurecode_rs_vand.c",
    "src/builtin/xor_codes/xor_code.c", "src/builtin/xor_codes/xor_hd_code.c",
    "src/backends/xor/flat_xor_hd.c", "src/backends/isa-l/isa_l_common.c",
    "src/backends/null/null.c", "src/utils/chksum/crc32.c", "include/erasurecode/erasurecode_helpers.h",
]

def props_for(path):
    res = []
    for l in open(os.path.join(VERIF, "properties.jsonl")):
        p = json.loads(l)
        if path in p["anchors"]["files"]: res.append(p["id"])
    # files no property anchors directly but whose behaviour several observe
    extra = {"src/backends/null/null.c": ["C08", "C12", "C13", "C16"],
             "include/erasurecode/erasurecode_helpers.h": ["C06", "C09", "C11"],
             "src/utils/chksum/crc32.c": ["C09", "C10", "C11", "C12"]}
    for x in extra.get(path, []):
        if x not in res: res.append(x)
    return sorted(res)

def code_mask(src):
    """per character: True when inside a comment, string or preprocessor line"""
    n = len(src); m = [False] * n; i = 0
    while i < n:
        if src.startswith("/*", i):
            j = src.find("*/", i + 2); j = n if j < 0 else j + 2
            for t in range(i, j): m[t] = True
            i = j; continue
        if src.startswith("//", i):
            j = src.find("\n", i); j = n if j < 0 else j
            for t in range(i, j): m[t] = True
            i = j; continue
        if src[i] == '"' or src[i] == "'":
            q = src[i]; j = i + 1
            while j < n and src[j] != q:
                if src[j] == "\\": j += 1
                j += 1
            for t in range(i, min(j + 1, n)): m[t] = True
            i = j + 1; continue
        if src[i] == "#" and (i == 0 or src[:i].rstrip(" \t").endswith("\n") or src[:i].strip() == ""):
            j = i
            while True:
                e = src.find("\n", j); e = n if e < 0 else e
                if src[e - 1:e] == "\\": j = e + 1; continue
                break
            for t in range(i, e): m[t] = True
            i = e; continue
        i += 1
    return m

def in_function(src):
    """per character: brace depth > 0 (crude: good enough to skip declarations at file scope)"""
    d = 0; res = []
    mask = code_mask(src)
    for i, c in enumerate(src):
        if not mask[i]:
            if c == "{": d += 1
            elif c == "}": d -= 1
        res.append(d > 0)
    return res

OPS = [
    ("ROR", r"(?<![<>=!\-])<=(?!=)", ["<"]), ("ROR", r"(?<![<>=!\-])>=(?!=)", [">"]),
    ("ROR", r"(?<![<>=!\-+*/&|^])<(?![<=])", ["<="]), ("ROR", r"(?<![<>=!\-+*/&|^])>(?![>=])", [">="]),
    ("ROR", r"==", ["!="]), ("ROR", r"!=", ["=="]),
    ("LCR", r"&&", ["||"]), ("LCR", r"\|\|", ["&&"]),
    ("AOR", r"(?<=[\w\)\]]) \+ (?=[\w\(])", [" - "]), ("AOR", r"(?<=[\w\)\]]) - (?=[\w\(])", [" + "]),
    ("AOR", r"(?<=[\w\)\]]) \* (?=[\w\(])", [" + "]),
    ("BIT", r"(?<=[\w\)\]]) & (?=[\w\(~])", [" | "]), ("BIT", r"(?<=[\w\)\]]) \| (?=[\w\(~])", [" & "]),
    ("BIT", r"<<", [">>"]), ("BIT", r">>", ["<<"]),
    ("INC", r"\+\+", ["--"]), ("CONST", r"(?<![\w.])(\d+)(?![\w.xX])", None),
]

def gen_for_file(path, rng, per_file):
    src = open(os.path.join(REPO, path)).read()
    mask = code_mask(src); inf = in_function(src)
    cands = []
    for kind, rx, repl in OPS:
        for mt in re.finditer(rx, src):
            a, b = mt.span()
            if any(mask[a:b]) or not inf[a]: continue
            if kind == "ROR" and src[a - 1:a] == "-": continue      # ->
            if kind == "INC" and "for (" in src[src.rfind("\n", 0, a) + 1:a]: continue   # endless loops: the suite kills them by timeout
            if kind == "CONST":
                v = int(mt.group(1))
                if v > 64 and v not in (80, 255, 256, 65535, 65536): continue
                for nv in ([v + 1] if v == 0 else [v + 1, v - 1]):
                    cands.append((kind, a, b, str(nv)))
            else:
                for r in repl: cands.append((kind, a, b, r))
    # statement deletion: single-line call / assignment / goto statements
    off = 0
    for line in src.split("\n"):
        st = line.strip()
        a = off + len(line) - len(line.lstrip()); b = off + len(line)
        off += len(line) + 1
        if not st.endswith(";") or not inf[a] or any(mask[a:b]): continue
        if re.match(r"^(free|check_and_free_buffer|free_fragment_buffer|goto|ret\s*=|rc\s*=|\w+\s*\(|\*?\w+(\[[^\]]*\])?(->\w+|\.\w+)*\s*[|&^+\-]?=[^=])", st) and not st.startswith("return") and not re.match(r"^(int|char|unsigned|uint\w+|size_t|struct|static|const|long|void|fragment_\w+|ec_\w+)\b", st):
            cands.append(("SDL", a, b, ";"))
    rng.shuffle(cands)
    # balance kinds: round-robin
    bykind = {}
    for c in cands: bykind.setdefault(c[0], []).append(c)
    out = []
    while len(out) < per_file and any(bykind.values()):
        for k in list(bykind):
            if bykind[k] and len(out) < per_file: out.append(bykind[k].pop())
    res = []
    for kind, a, b, r in out:
        new = src[:a] + r + src[b:]
        line = src.count("\n", 0, a) + 1
        res.append(dict(file=path, kind=kind, line=line, orig=src[a:b][:80], new=r[:80],
                        context=src.split("\n")[line - 1].strip()[:160], _new_src=new))
    return res

def cmd_gen(a):
    rng = random.Random(a.seed)
    shutil.rmtree(MDIR, ignore_errors=True); os.makedirs(MDIR)
    idx = []
    for f in FILES:
        per = a.per_file * (3 if f == "src/erasurecode.c" else 1)
        for mu in gen_for_file(f, rng, per):
            mid = "m%03d" % len(idx)
            tmp = os.path.join(MDIR, "tmp_new")
            open(tmp, "w").write(mu.pop("_new_src"))
            d = subprocess.run(["diff", "-u", "--label", "a/" + f, "--label", "b/" + f, os.path.join(REPO, f), tmp],
                               capture_output=True, text=True).stdout
            os.remove(tmp)
            open(os.path.join(MDIR, mid + ".diff"), "w").write(d)
            mu["id"] = mid; mu["props"] = props_for(f); idx.append(mu)
    json.dump(idx, open(os.path.join(MDIR, "index.json"), "w"), indent=1)
    print("generated", len(idx), "mutants")

def sh(cmd, **kw):
    return subprocess.run(cmd, shell=isinstance(cmd, str), capture_output=True, text=True, **kw)

def ensure_wt(j):
    wt = "/tmp/mut_wt%d" % j
    if not os.path.exists(os.path.join(wt, "Makefile")):
        sh("git -C /repo worktree remove --force %s" % wt)
        r = sh([os.path.join(VERIF, "tools", "mkworktree.sh"), wt])
        if "292 tests ok" not in r.stdout: raise SystemExit("worktree %s not ready: %s %s" % (wt, r.stdout, r.stderr))
    return wt

def run_one(mu, j, par):
    wt = ensure_wt(j); t0 = time.time()
    res = dict(id=mu["id"], file=mu["file"], line=mu["line"], kind=mu["kind"], orig=mu["orig"], new=mu["new"], context=mu["context"])
    sh("git -C %s checkout -- ." % wt)
    ap = sh("git -C %s apply %s" % (wt, os.path.join(MDIR, mu["id"] + ".diff")))
    if ap.returncode != 0:
        res["status"] = "patch-failed"; return res
    try:
        mk = sh("make -C %s -j4 2>&1 | tail -5" % wt)
        chk = sh("make -C %s -j4 2>&1 | grep -c ' error\\|Error '" % wt)
        if chk.stdout.strip() not in ("0", ""):
            res["status"] = "stillborn"; return res
        try:
            t = subprocess.run("timeout -k 5 200 make -C %s test 2>&1" % wt, shell=True, capture_output=True, text=True, timeout=260)
            out = t.stdout
        except subprocess.TimeoutExpired:
            res["status"] = "suite-killed"; res["suite"] = "timeout"; return res
        okc = len(re.findall(r"^ok", out, re.M)); bad = len(re.findall(r"not ok|[Aa]ssertion|[Aa]borted|[Ss]egmentation|core dumped", out))
        if okc != 292 or bad:
            res["status"] = "suite-killed"; res["suite"] = "ok=%d bad=%d" % (okc, bad); return res
        env = dict(os.environ); env["VERIF_REPO"] = wt
        def one(pid):
            try:
                r = subprocess.run([os.path.join(VERIF, "check"), pid, "--no-lean", "--tag", "mut%d" % j], capture_output=True, text=True, env=env, cwd=VERIF, timeout=1500)
                o = r.stdout
            except subprocess.TimeoutExpired:
                return pid, "timeout", ""
            v = [l for l in o.splitlines() if l.startswith("VIOLATION")]
            first = [l for l in o.splitlines() if l.startswith("  - ")]
            if v: return pid, ("nfi" if "no-failing-input-found" in v[0] else "concrete"), (first[0][:240] if first else "")
            if "OK property" in o: return pid, "ok", ""
            return pid, "error", o[-300:]
        with ThreadPoolExecutor(par) as ex:
            rs = list(ex.map(one, mu["props"]))
        res["checks"] = {p: s for p, s, _ in rs}
        res["first"] = {p: t for p, s, t in rs if t}
        killed = [p for p, s, _ in rs if s in ("concrete", "nfi", "timeout")]
        res["status"] = "killed" if killed else "survived"
        res["killed_by"] = killed
        return res
    finally:
        sh("git -C %s checkout -- ." % wt)
        res["wall"] = round(time.time() - t0, 1)
        for p in mu["props"]:
            shutil.rmtree(os.path.join(VERIF, "build", "%s-quick-mut%d" % (p, j)), ignore_errors=True)

def cmd_run(a):
    idx = json.load(open(os.path.join(MDIR, "index.json")))
    done = set()
    rp = os.path.join(MDIR, a.out)
    if os.path.exists(rp):
        for l in open(rp): done.add(json.loads(l)["id"])
    if a.props:
        for m in idx: m["props"] = a.props.split(",")
    todo = [m for m in idx if m["id"] not in done]
    if a.only: todo = [m for m in todo if a.only in m["file"]]
    if a.ids: todo = [m for m in idx if m["id"] in a.ids.split(",")]
    if a.limit: todo = todo[:a.limit]
    import threading, queue
    q = queue.Queue()
    for m in todo: q.put(m)
    lock = threading.Lock()
    def worker(j):
        while True:
            try: m = q.get_nowait()
            except queue.Empty: return
            r = run_one(m, j, a.par)
            with lock:
                open(rp, "a").write(json.dumps(r) + "\n")
                print(r["id"], r["file"], r["line"], r["kind"], repr(r["orig"]), "->", repr(r["new"]), r["status"], r.get("killed_by", ""), flush=True)
    ths = [threading.Thread(target=worker, args=(j,)) for j in range(a.jobs)]
    for t in ths: t.start()
    for t in ths: t.join()

def cmd_report(a):
    rp = os.path.join(MDIR, "results.jsonl")
    rs = [json.loads(l) for l in open(rp)]
    by = {}
    for r in rs: by.setdefault(r["status"], []).append(r)
    print({k: len(v) for k, v in by.items()})
    for r in by.get("survived", []):
        print("SURVIVED %s %s:%d %s %r -> %r   | %s" % (r["id"], r["file"], r["line"], r["kind"], r["orig"], r["new"], r["context"]))

if __name__ == "__main__":
    ap = argparse.ArgumentParser(); sub = ap.add_subparsers(dest="cmd")
    g = sub.add_parser("gen"); g.add_argument("--per-file", type=int, default=12); g.add_argument("--seed", type=int, default=1)
    r = sub.add_parser("run"); r.add_argument("--jobs", type=int, default=2); r.add_argument("--par", type=int, default=6)
    r.add_argument("--only"); r.add_argument("--ids"); r.add_argument("--limit", type=int)
    r.add_argument("--props", help="comma list: run these checks instead of the anchored ones"); r.add_argument("--out", default="results.jsonl")
    sub.add_parser("report")
    a = ap.parse_args()
    {"gen": cmd_gen, "run": cmd_run, "report": cmd_report}[a.cmd](a)
