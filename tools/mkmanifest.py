#!/usr/bin/env python3
"""Writes MANIFEST.json from the table below (kept in one place so it stays valid)."""
import json, os
VERIF = os.path.dirname(os.path.dirname(os.path.abspath(__file__)))

CLAIMED = {
 "C07": dict(sec="6/C07", technique="Lean 4 theorems (serializer refinement, parse∘serialize) + generated-layout decide + differential correspondence",
   text="Theorems: the setter sequence of add_fragment_metadata on a fresh buffer equals the independently written serializer (Header.bytes) for every field value and payload; encode returns k+m equal-length fragments `header ++ payload` with data payload i = zero-padded slice i; parse∘serialize = id at the fixed offsets; padding zero; struct layout/magic compiled from the tree equal the golden layout (kernel decide over regenerated LecGen.Consts). Tie: every byte of every fragment from the real encode is diffed against the model for sampled (config, length, content, checksum type, legacy switch).",
   note="EncodeOK (backend keeps data payloads, returns m parity payloads of block size) is a hypothesis of encode_wire; proved for the null backend, validated for RS/XOR by the byte-exact correspondence. Purity across histories is C15."),
 "C08": dict(sec="6/C08", technique="Lean 4 arithmetic theorems (omega) + correspondence over all shapes",
   text="Theorems: aligned size is a multiple of k*(w/8), >= len, < len + k*(w/8) and least such; fragment-size query + 80 = length of every fragment encode returns; min = aligned(1); public (element_size) and internal (w) queries coincide for the built-in backends. Tie: the three size APIs of the real library vs the model for every accepted shape (thorough) and lengths around multiples of k*w/8 up to 2^20.",
   note="C int arithmetic assumed not to overflow (len < 2^31 - 2^12); unknown descriptors are covered by C14."),
 "C09": dict(sec="6/C09", technique="Lean 4 theorems (iff with reference predicate, gating of all consumers) + systematic header mutation correspondence",
   text="Theorems: is_invalid_fragment_header rejects exactly the complement of the acceptance predicate transcribed from the property; the metadata query, decode and reconstruct return EBADHEADER whenever one supplied header is outside it, before any field is used; opposite-order accepted headers still fail reconstruct with EBADHEADER; every header written by add_fragment_metadata is accepted; the crc32 table compiled in the C source equals the polynomial's table (kernel decide over the regenerated table). Tie: all 640 single-bit flips, byte sets, version/magic/CRC rewrites with and without re-sealing, re-sealed field edits on real fragments, verdicts of all consuming APIs diffed against the model, buffers compared before/after.",
   note="decode with forced checks drops (rather than rejects) accepted opposite-order fragments, see DESIGN §6/C09; zlib's crc32 is compared with the bitwise model on every run (cksum suite)."),
 "C10": dict(sec="6/C10", technique="Lean 4 theorems (writer value, mismatch iff, fresh intact) + payload corruption correspondence",
   text="Theorems: with CRC32 every fragment built by add_fragment_metadata stores crcStd(payload), or crcAlt iff the legacy switch is set (non-empty, not \"0\"); the metadata query reports mismatch iff the stored word differs from both CRCs; a mismatch makes validation fail; fragments written either way read back intact. Tie: real encode/reconstruct under the actual environment values {unset,'','0','1','yes','00','false'}, every single-bit payload flip for short payloads, bursts otherwise, stored-checksum edits; zlib crc32 and liberasurecode_crc32_alt vs the bitwise models on random buffers incl. negative chars.",
   note="zlib is external: modelled bitwise and compared on every run."),
 "C11": dict(sec="6/C11", technique="Lean 4 theorem (twin has equal metadata for every payload) + twin correspondence",
   text="Theorem: for every well-formed accepted header and every payload, the metadata query on the byte-reversed (opposite-endian) fragment returns the same nine logical fields, including the computed mismatch flag, as on the native fragment; both are accepted. Tie: every fragment of sampled stripes and its field-swapped twin through the real metadata query / header validation, with and without payload corruption, compared field by field.",
   note="big-endian hosts are modelled only as producers of fragments; genuine defect found and fixed (54f8096)."),
 "C12": dict(sec="6/C12", technique="Lean 4 theorems (iff with reference verdict, stripe verification) + cross-instance correspondence",
   text="Theorems: is_invalid_fragment is true iff header unacceptable / not host order / library version newer / index outside [0,k+m) / backend id differs / backend version not accepted / checksum mismatch; verify_stripe_metadata returns 0 iff no fragment fails the index/id/version/flag test and a negative code otherwise; fresh fragments validate. Tie: cross-instance matrix of real fragments, re-sealed single-field edits (index boundary values, backend id 0..255, versions ±1, library versions, preset mismatch flag).",
   note="genuine defect found and fixed (e6039a3)."),
 "C13": dict(sec="6/C13", technique="Lean 4 theorems (refusal for all argument vectors, create acceptance iff) + exhaustive argument-class correspondence in forked children",
   text="Theorems: for every public entry point and every argument vector with an invalid component (dead descriptor, NULL, zero/negative count, length shorter than a header, out-of-range destination) the result is a negative code (1 for the boolean validator), valid vectors are accepted; create succeeds iff backend known and available, k>=1, m>=0, k+m<=32 and the backend's shape rule holds, and every error code is negative; an accepted instance has k>=1, word size >= 1 byte, k+m<=32 (no division by zero, no out-of-range shift); refused create leaves the registry unchanged (C14). Tie: the full product of argument classes per API and the (backend,k,m,hd,w) box run against the real library in forked children under ASan/UBSan (a crash is a result), every accepted instance is driven through encode/decode/queries/destroy.",
   note="partial: crash-freedom and 'nothing left allocated' of the compiled code are runtime behaviour (observed under sanitizers and by the C16 ledger), not proved. Genuine defects found and fixed: k=0 accepted, m=0 matrix over-read, encode NULL/uninitialised cleanup, reconstruct with out-of-range destination or short fragment_len."),
 "C14": dict(sec="6/C14", technique="Lean 4 invariant by induction over all create/destroy histories + history correspondence",
   text="Theorems over the registry state machine: live descriptors are positive and pairwise distinct and the GF-table reference count equals the number of live rs_vand instances after every history (induction over the operation list); a successful create returns a positive descriptor that was not live whatever the counter value (wrap past INT_MAX included); a failed create leaves the state unchanged; destroy makes the descriptor unknown and an unknown descriptor is refused without effect; create/destroy of one instance leaves every other descriptor's instance unchanged; tables present iff an rs_vand instance is live. Tie: bounded-exhaustive and random histories (create/destroy/double destroy/use/query/failed create over 4 slots, counter preset to 0, near INT_MAX and negative) replayed on the real library with exact descriptor values compared, every live instance round-trips after each step.",
   note="partial: physical isolation of heap objects is runtime behaviour. alloc_desc termination within live+2 iterations is assumed in the model's fuel (the fallback branch returns an error and keeps the invariant). ++next_backend_desc at INT_MAX is signed overflow in C; gcc wraps it, which is what the model describes (UBSan's signed-overflow check is off in the harness build)."),
 "C01": dict(sec="6/C01", technique="Lean 4 theorems (front-end refinement to backend contracts; GF(2^16) field, MDS, Gauss-Jordan; kernel-decided XOR tables) + differential correspondence",
   text="Theorems: for any backend meeting the encode/decode contracts, every created instance, every input (< 2^31-2^12 bytes, any content, length 0 included) and every list of fragments drawn from the encoded stripe (any order, duplicates, surplus) whose missing set is within tolerance, decode returns exactly the input, with and without forced checks. The contracts are proved for the built-in Reed-Solomon code for every k>=1, k+m<=32 (in fact <= 65536): xor/gmul is a field, the generator is MDS, Gauss-Jordan inverts every k available rows, region dot products compute matrix-vector products on 16-bit LE words; and for every flat-XOR table regenerated from the C header (kernel-decided symbolic run of every decode plan for |E|<hd, lifted to every payload content and length by a homomorphism lemma). Tie: enc/dec lines through the real library incl. permuted, duplicated, surplus and mis-aligned survivors, both checksum types, all XOR tables x all erasure sets < hd and all RS shapes n<=12 x all sets <= m in the thorough tier.",
   note="16-byte alignment is not a notion of the value-level model (exercised by the harness). isa-l adapters: see C19."),
 "C02": dict(sec="6/C02", technique="Lean 4 theorems (soundness for all fragment sub-multisets, no tolerance hypothesis) + exhaustive-subset correspondence under sanitizers",
   text="Theorems: for ANY list of fragments drawn from one stripe (too few, beyond tolerance, duplicated, any order), with or without forced checks, decode returns the exact input or a negative code and reconstruct the exact fragment or a negative code; never other bytes and never the model's crash marker (out-of-range pivot, short buffer). Proved against the DecodeSound contract and instantiated for Reed-Solomon (every k>=1,k+m<=32) and the generated flat-XOR tables (beyond tolerance the classifier reaches GE_HD and errors; the two reconstruct shortcuts are proved sound for every missing list). Tie: all 2^(k+m) subsets of small codes and all XOR tables with sets of size hd..m, decode + reconstruct of every missing index, under ASan/UBSan with canaries around outputs.",
   note="partial: out-of-bounds accesses and crashes of the compiled code are runtime behaviour (observed under sanitizers). Genuine defects found and fixed (0bd0aee, 17360e6)."),
 "C03": dict(sec="6/C03", technique="Lean 4 theorems (whole-fragment equality incl. regenerated header) + all-destination correspondence",
   text="Theorems: within tolerance, for every destination 0<=d<k+m (missing or supplied) reconstruct returns exactly the byte string encode produced for d (header, metadata CRC, payload CRC, payload); out-of-range destinations are rejected with EINVALIDPARAMS. RS: data rows of the inverse and substituted parity rows proved equal to the generator identity; XOR: single-parity shortcut and fall-through decode, kernel-decided per table for every (E, dest). Tie: rec lines for all destinations incl. supplied ones, maximum erasure counts, legacy CRC switch, out-of-range destinations in forked children.",
   note="Genuine defect found and fixed (17360e6)."),
 "C04": dict(sec="6/C04", technique="Lean 4 theorems (field, closed form, MDS, parity = matrix*data) + exhaustive execution over all 496 shapes and all table entries",
   text="Theorems: GF(2^16)/0x1100b arithmetic of the model is a field; generator entries equal L_j(r)/L_j(k) in it; rows 0..k-1 identity, first parity row all ones; any k of the k+m rows invertible (k+m<=65536); encode's parity payloads are the matrix-vector products on little-endian 16-bit words. Executed exhaustively every run (reported as execution): make_systematic_matrix of the library = transliterated makeSys = closed form for all 496 shapes; all log/antilog table entries and 20k-200k products/quotients of rs_galois_mult/div = model.",
   note="makeSys = closed form and table-driven mult = gmul are established by exhaustive execution, not by a kernel theorem (DESIGN 5.2)."),
 "C15": dict(sec="6/C15", technique="Lean 4 theorems (bounded reads of validation/metadata, instance stability over histories) + guard-page and cross-history correspondence",
   text="Theorems: header validation depends only on the 80 header bytes; the metadata query only on the header and the announced payload bytes; results are functions of (switch, backend, instance record, arguments) and the record behind a live descriptor is unchanged by any history of create/destroy on other descriptors. Tie: every input of encode/decode/reconstruct/metadata/validation on read-only pages ending at a PROT_NONE page in forked children, inputs compared before/after every call in every suite, re-encode after unrelated activity and from a second thread.",
   note="partial: absence of stray reads/writes of the compiled code and thread-independence are runtime behaviour (observed, not proved); immutability of inputs holds by construction in the value-level model."),
 "C16": dict(sec="6/C16", technique="Lean 4 theorems over the allocation ledger + counting-allocator and ASan/LSan correspondence",
   text="Theorems over the ledger model: blocks held after any history = live instance + outstanding encode result (k+m+2) + outstanding decode result (1); failing calls hold nothing; cleanup calls release exactly what was returned; decode_cleanup, encode_cleanup, destroy drain to zero from every state, for every shape. Tie: random histories (<=300 calls mixing valid, insufficient, bad-header, invalid-argument, unsupported-shape, unaligned and forced calls) on the real library with an interposed counting allocator (block count after every call compared with the model, double frees counted) and again under ASan+LeakSanitizer.",
   note="partial: that every early-exit path frees what it allocated and no freed block is touched is observed (ledger, ASan), not proved; the allocator is runtime."),
 "C17": dict(sec="6/C17", technique="Lean 4 theorems (front end parameterised by failing backend ops) + op-table fault injection",
   text="Theorems: backend encode/decode/reconstruct/fragments_needed failing makes the public call return that negative code (decode can only return ok through the fast path or a successful backend decode); init failure gives EBACKENDINITERR and leaves the registry unchanged; operations are functions with no instance state to corrupt; the fault script holds nothing after the failed step. Tie: the instance's operation table is pointed at failing stubs at every position of a scripted workload for null, flat_xor_hd and rs_vand; return codes, allocation ledger after the failed call, the follow-up round trip and the final ledger are compared with the model; the same under ASan/LSan.",
   note="partial: released memory and dlopen reference counts are runtime behaviour. Genuine defect found and fixed (edaa63e: handle not closed when init fails)."),
 "C20": dict(sec="6/C20", technique="Lean 4 theorems (forced decode = plain decode of the valid sub-list) + damaged-subset correspondence",
   text="Theorems: with forced checks and acceptable headers, decode equals plain decode of the fragments that pass validation (EINSUFFFRAGS if fewer than k do); removing an invalid fragment does not change the result; if every supplied fragment is either a genuine fragment of the stripe or fails validation, the result is the input when the genuine ones are within tolerance and otherwise a negative code, never other bytes. Tie: stripes with damaged subsets (payload bit flips under CRC32, re-sealed backend id / version / index edits), permuted, forced and unforced.",
   note="Genuine defect found and fixed (88e5728)."),
}

PENDING = {}

def main():
    ids = ["C%02d" % i for i in range(1, 21)]
    checks = []
    for pid in ids:
        if pid not in CLAIMED: continue
        c = CLAIMED[pid]
        checks.append({
            "property_id": pid,
            "quick_cmd": "./check %s --tier quick" % pid,
            "thorough_cmd": "./check %s --tier thorough" % pid,
            "evidence_file": "/verif/evidence/%s.json" % pid,
            "replay_cmd_template": "./check %s --replay {path}" % pid,
            "engine": "lean4-proof+correspondence",
            "level_claimed": {"category": "proof", "text": c["text"], "design_ref": "DESIGN.md §" + c["sec"]},
            "level_note": c["note"] + " Trusted base: Lean 4.33 kernel; axioms propext/Classical.choice/Quot.sound only (audited each run); translators tools/gen.py; harness/*.c + lecdrv; x86-64 LE; gcc.",
            "technique": c["technique"],
        })
    na = [{"property_id": pid, "reason": PENDING.get(pid, "no check registered yet: model/theorems under construction in this round (see DESIGN.md §9)")}
          for pid in ids if pid not in CLAIMED]
    man = {
        "version": 1,
        "setup_cmd": "./setup.sh",
        "hooks": {"guard": "LIBERASURECODE_VERIF", "enable": "harness/build_lib.sh compiles /repo's sources with -DLIBERASURECODE_VERIF",
                  "baseline_off_cmd": "make -C /repo test", "source_commits": [], "add_only": True},
        "engines": [{"name": "lean4-proof+correspondence", "path": "/verif/check",
                     "serves_properties": [c["property_id"] for c in checks],
                     "kind_free_text": "Lean 4 theorems over an executable model (lake project /verif/lean), model tied to the C code by translators (tools/gen.py) and a differential correspondence harness (harness/*.c vs lecdrv)"}],
        "checks": checks,
        "not_applicable": na,
        "notes": "All checks rebuild the library from /repo's working tree. Known findings: known_findings.json.",
    }
    json.dump(man, open(os.path.join(VERIF, "MANIFEST.json"), "w"), indent=1)
    print("claimed:", [c["property_id"] for c in checks])

if __name__ == "__main__":
    main()
