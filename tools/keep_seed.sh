#!/bin/bash
# keep_seed.sh <ID> <round> <letter> — copy a verified seeded change from /tmp/seed<round>_<ID> to seeded/<ID><letter>/
ID="$1"; R="$2"; L="$3"; SD=/tmp/seed${R}_$ID; D=/verif/seeded/$ID$L
mkdir -p $D
for f in patch.diff demo.c notes.md refisal.c run_demo.sh; do [ -f $SD/$f ] && cp $SD/$f $D/; done
echo "kept $D: $(ls $D | tr '\n' ' ')"
