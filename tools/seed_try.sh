#!/bin/bash
# seed_try.sh <patch> <tag> <check-ids...> — run checks against a patched COPY of /repo using a COPY of /verif (both under /tmp, removed afterwards),
# so that several candidates can be tried in parallel and /repo and /verif stay free.  Env: TIER (quick), SEED (0), KEEP=1 keeps the copies.
P="$1"; TAG="$2"; shift 2
V=/tmp/vc_$TAG; R=/tmp/rc_$TAG
rm -rf $V $R
rsync -a --exclude build --exclude .git /verif/ $V/ && mkdir -p $V/build
rsync -a --exclude .git /repo/ $R/ && (cd $R && git init -q . 2>/dev/null && git add -A >/dev/null 2>&1 && git -c user.email=x -c user.name=x commit -qm base >/dev/null 2>&1)
if [ "$P" != none ]; then (cd $R && git apply "$P") || { echo "$TAG: patch does not apply"; rm -rf $V $R; exit 1; }; fi
cd $V
for c in "$@"; do
  out=$(VERIF_REPO=$R ./check $c --tier ${TIER:-quick} --seed ${SEED:-0} 2>&1 | grep -E "^VIOLATION|^OK|^KNOWN|^  - " | head -${LINES_SHOWN:-3} | tr '\n' ' ' | cut -c1-${WIDTH:-400})
  echo "$TAG -> check $c: $out"
done
[ -n "$KEEP" ] || rm -rf $V $R
