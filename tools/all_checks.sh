#!/bin/bash
# all_checks.sh [tier] [seeds...] — every registered check on the current tree
cd /verif
TIER="${1:-quick}"; shift
SEEDS="${@:-0}"
for s in $SEEDS; do
  for i in 01 02 03 04 05 06 07 08 09 10 11 12 13 14 15 16 17 18 19 20; do
    out=$(./check C$i --tier $TIER --seed $s 2>&1 | grep -E "^VIOLATION|^OK|^KNOWN|^  - " | head -4 | tr '\n' ' ')
    echo "seed=$s C$i: $out"
  done
done
