#!/bin/bash
# verify_seed.sh <ID> [round-suffix] — confirm a seeded change in its scratch worktree: suite green with the change,
# demo FAILs with it and PASSes without it.  Prints one summary line.
ID="$1"; SFX="$2"; WT=/tmp/wt${SFX}_$ID; SD=/tmp/seed${SFX}_$ID
cd "$WT" || exit 2
git checkout -q -- . 2>/dev/null; git apply "$SD/patch.diff" || { echo "$ID: patch does not apply"; exit 1; }
make -j8 >/dev/null 2>&1
okc=$(make test 2>&1 | grep -c '^ok'); bad=$(make test 2>&1 | grep -ci 'not ok\|assertion\|aborted\|segmentation')
build_demo() { (cd "$SD" && gcc -O1 -o demo_bin demo.c -I$WT/include/erasurecode -I$WT/include -I$WT/include/xor_codes -I$WT/include/rs_vand -L$WT/src/.libs -lerasurecode -L$WT/src/builtin/xor_codes/.libs -L$WT/src/builtin/rs_vand/.libs -ldl -lz -lpthread -Wl,-rpath,$WT/src/.libs -Wl,-rpath,$WT/src/builtin/xor_codes/.libs -Wl,-rpath,$WT/src/builtin/rs_vand/.libs -Wl,-rpath,$WT/src/builtin/null_code/.libs 2>/dev/null); }
run_demo() { if [ -f "$SD/run_demo.sh" ]; then (cd "$SD" && timeout 900 bash ./run_demo.sh >/dev/null 2>&1; echo $?); elif build_demo; then (cd "$SD" && timeout 600 ./demo_bin >/dev/null 2>&1; echo $?); else echo "build-failed"; fi; }
with=$(run_demo)
git apply -R "$SD/patch.diff"; make -j8 >/dev/null 2>&1
without=$(run_demo)
git apply "$SD/patch.diff"; make -j8 >/dev/null 2>&1
echo "$ID: suite_ok_lines=$okc suite_failures=$bad demo_with_change_exit=$with demo_without_change_exit=$without"
