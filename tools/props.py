"""Per-property configuration of ./check: which correspondence suites run, build mode, notes."""
PROPS = {
    "C01": dict(suites=["rt"]),
    "C02": dict(suites=["nsc"]),
    "C03": dict(suites=["recon"]),
    "C04": dict(suites=["rsmat"]),
    "C05": dict(suites=["xor"]),
    "C06": dict(suites=["need"]),
    "C07": dict(suites=["wire"]),
    "C08": dict(suites=["wire"]),
    "C09": dict(suites=["hdr"]),
    "C10": dict(suites=["cksum"]),
    "C11": dict(suites=["endian"]),
    "C12": dict(suites=["valid"]),
    "C13": dict(suites=["args"]),
    "C14": dict(suites=["hist"]),
    "C20": dict(suites=["force"]),
}
