"""Per-property configuration of ./check: which correspondence suites run, build mode, notes."""
PROPS = {
    "C07": dict(suites=["wire"]),
    "C08": dict(suites=["wire"]),
    "C09": dict(suites=["hdr"]),
    "C10": dict(suites=["cksum"]),
    "C11": dict(suites=["endian"]),
    "C12": dict(suites=["valid"]),
}
