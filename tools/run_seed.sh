#!/bin/bash
# run_seed.sh <ID> [extra check ids...] — apply seeded/<ID>/patch.diff to /repo (never committed), run the
# quick checks, undo.
ID="$1"; shift
P=/verif/seeded/$ID/patch.diff
cd /verif
git -C /repo apply "$P" || { echo "$ID: patch does not apply to /repo"; exit 1; }
for c in $ID "$@"; do
  out=$(./check $c --keep 2>&1 | grep -E "^VIOLATION|^OK|^KNOWN" | head -2 | tr '\n' ' ')
  echo "seed $ID -> check $c: $out"
done
git -C /repo checkout -- .
