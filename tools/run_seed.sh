#!/bin/bash
# run_seed.sh <ID> [extra check ids...] — apply seeded/<ID>/patch.diff to /repo (never committed), run the
# quick checks, undo.
DIR="$1"; ID="${DIR:0:3}"; shift     # seeded/<DIR> (e.g. C03 or C03b); the property is its first three characters
P=/verif/seeded/$DIR/patch.diff
# a change that no longer applies because a later fix: commit touched the same lines is kept re-based by hand
[ -f /verif/seeded/$DIR/patch_rebased.diff ] && P=/verif/seeded/$DIR/patch_rebased.diff
cd /verif
git -C /repo apply "$P" || { echo "$DIR: patch does not apply to /repo"; exit 1; }
for c in $ID "$@"; do
  out=$(./check $c --keep 2>&1 | grep -E "^VIOLATION|^OK|^KNOWN" | head -2 | tr '\n' ' ')
  echo "seed $DIR -> check $c: $out"
done
git -C /repo checkout -- .
