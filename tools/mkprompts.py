#!/usr/bin/env python3
"""mkprompts.py <round> <theme-file> — write build/prompt<round>_Cxx.txt for a new round of seeded changes.
The prompt is the round-9 prompt of the property with (a) paths renamed, (b) the theme paragraph replaced by the
text of <theme-file>, (c) the list of earlier trigger conditions extended by every kept change's needs_to_manifest.
Agents get nothing from /verif: the prompt text is passed to them verbatim."""
import sys, re, json, glob, os
rnd, theme = sys.argv[1], open(sys.argv[2]).read().strip()
V = os.path.dirname(os.path.dirname(os.path.abspath(__file__)))
for i in range(1, 21):
    pid = 'C%02d' % i
    t = open(f'{V}/build/prompt9_{pid}.txt').read()
    t = t.replace('wt9_', f'wt{rnd}_').replace('seed9_', f'seed{rnd}_')
    a = t.index('Make the violation need a COMBINATION')
    b = t.index('Earlier rounds already used')
    c = t.index('DELIVERABLES')
    trig = []
    for d in sorted(glob.glob(f'{V}/seeded/{pid}*')):
        m = json.load(open(d + '/meta.json'))
        trig.append(' - ' + m['needs_to_manifest'].strip())
    t = (t[:a] + theme + ' Earlier rounds already used the following trigger conditions for this property; use a '
         'DIFFERENT mechanism and a different site.\n' + '\n'.join(trig) + '\n\n' + t[c:])
    open(f'{V}/build/prompt{rnd}_{pid}.txt', 'w').write(t)
print('ok')
