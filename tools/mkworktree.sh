#!/bin/bash
# mkworktree.sh <dir> — scratch git worktree of /repo's HEAD, configured and built (for seeded-change agents)
set -e
D="$1"
git -C /repo worktree add -q "$D" HEAD
rsync -a --ignore-existing --exclude .git --exclude '*.o' --exclude '*.lo' --exclude '*.la' --exclude '.libs' --exclude '.deps' /repo/ "$D"/
cd "$D" && ./configure >/dev/null 2>&1 && make -j8 >/dev/null 2>&1
echo "worktree $D ready: $(make test 2>&1 | grep -c '^ok') tests ok"
