#!/bin/bash
# revert_test.sh — regression test of the checks: revert each fix commit in /repo's working tree
# (never committed), run the property's quick check, expect a VIOLATION, restore the tree.
cd /verif
declare -A MAP=( [e6039a3]="C12" [54f8096]="C11" [17360e6]="C03" [0bd0aee]="C02 C05" [40cb7b8]="C06" [97073ec]="C06"
                 [efd4d10]="C13" [6cecc5f]="C13" [bdc94c2]="C13" [88e5728]="C20" [af9f232]="C13" [edaa63e]="C17"
                 [9d1f758]="C18" [be5b0a5]="C18" [944b96f]="C18" )
for c in "${!MAP[@]}"; do
  if ! git -C /repo revert --no-commit $c >/dev/null 2>&1; then
    echo "$c: revert conflicts, skipped"; git -C /repo revert --abort >/dev/null 2>&1; git -C /repo reset -q --hard HEAD; continue
  fi
  for p in ${MAP[$c]}; do
    out=$(./check $p 2>&1 | grep -E "^VIOLATION|^OK" | head -1)
    echo "$c ($(git -C /repo log --format=%s -1 $c | cut -c1-60)) -> $p: $out"
  done
  git -C /repo revert --abort >/dev/null 2>&1; git -C /repo reset -q --hard HEAD
done
git -C /repo status --short | grep -v '^??'
