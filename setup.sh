#!/bin/bash
# Build the framework from files on disk only (offline): translators, Lean proofs, model driver.
set -e
cd "$(dirname "$0")"
mkdir -p build evidence
python3 tools/gen.py
cd lean
lake build 2>&1 | tail -5
test -x .lake/build/bin/lecdrv
echo "setup ok"
